"""C15 — ArraySequence is observationally a list of arrays under any history
(nibabel/streamlines/array_sequence.py, tractogram.py).

A case is one *history*: a list of operations over a growing set of live sequences (parents,
views, views of views, copies).  `impl` runs it on the real ArraySequence and reports, after EVERY
step, the contents of EVERY live sequence as exact integers; the Lean driver runs the same history
on the model (Model/C15.lean); `oracle` runs it on an independent reference made of plain Python
lists of arrays with explicit identity/link bookkeeping for the documented view semantics.
"""
import ast
import itertools
import os

import numpy as np

import common
from common import Case

PID = 'C15'
LEAN_TARGETS = ['NibabelModel.Props.C15']
THEOREMS = [
    'Nb.C15.inv_step',
    'Nb.C15.inv_run',
    'Nb.C15.step_refines',
    'Nb.C15.refines_list_partial',
    'Nb.C15.append_is_list_append',
    'Nb.C15.extend_is_list_extend',
    'Nb.C15.extendGen_is_list_extend',
    'Nb.C15.extendSeq_is_list_extend',
    'Nb.C15.growing_view_preserves_parent',
    'Nb.C15.concat_is_list_concat',
    'Nb.C15.copy_is_list_copy',
    'Nb.C15.slice_is_list_slice',
    'Nb.C15.op_is_list_map',
    'Nb.C15.opSeq_is_elementwise',
    'Nb.C15.view_setitem_hits_parent_exactly',
    'Nb.C15.setitem_is_list_setitem',
    'Nb.C15.iop_all_or_none',
    'Nb.C15.iopSeq_all_or_none',
    'Nb.C15.iopSeq_target',
    'Nb.C15.iopSeq_spec_partial',
    'Nb.C15.orig_view_append_overwrites_parent',
    'Nb.C15.orig_iop_partial',
    'Nb.C15.iopF_ok_iff',
    'Nb.C15.iopSeq_step_ok_iff',
    'Nb.C15.step_len',
    'Nb.C15.tinv_step',
    'Nb.C15.tinv_run',
    'Nb.C15.tract_creation_changes_nothing',
    'Nb.C15.textend_only_receiver_changes',
    'Nb.C15.textend_preserves_donor',
    'Nb.C15.growth_of_later_tractogram_keeps_earlier_sequences',
    'Nb.C15.growing_derived_tractogram_preserves_parent',
    'Nb.C15.growing_accumulator_preserves_donors',
    'Nb.C15.setIdxSeq_step_iff',
    'Nb.C15.setSeq_other_buffers_untouched',
    'Nb.C15.setSeq_all_or_none',
    'Nb.C15.setSeq_selected',
    'Nb.C15.setSeq_spec_partial',
    'Nb.C15.tcopy_is_independent_copy',
    'Nb.C15.tadd_keeps_every_live_sequence',
    'Nb.C15.add_result_fresh',
    'Nb.C15.write_through_fresh_sequence_keeps_others',
]
ASSUMPTIONS = [
    'hand-written Lean model of ArraySequence (Model/C15.lean): heap of row buffers (written prefix + '
    'capacity + dtype tag) and sequences = (buffer id, (offset,length) ranges, _is_view, buffer bytes); '
    'Tractograms = (streamlines sequence, data_per_point key -> sequence in dict order, n_rows) over the same '
    'heap; tied to the code by the differential run of every generated history (contents and dtype tag of every '
    'live sequence, and which sequences each tractogram holds, after every step)',
    'MEGABYTE and the default buffer_size are read from array_sequence.py, item sizes and the two tables of '
    'in-place operations NumPy refuses (float scalar / wider-kind ArraySequence operand on integer data) from '
    'the NumPy in use, on every run (Generated/C15Consts.lean)',
    'ndarray.resize(refcheck=True) succeeds in place exactly when no other live ArraySequence holds the '
    'ndarray (the harness keeps no ndarray alive between steps); np.empty/resize filler rows are never '
    'observed',
    'a row is a flat list of exact integers (trailing dims raveled); dtypes are tags with an item size; '
    'NumPy casts/arithmetic on the integer-valued data used are exact (values kept far below 2**24)',
    'cached builds (append(cache_build=True) ... finalize_append()) are atomic operations; '
    'tuple indices (seq[:, 0:2]), save/load and direct shrink_data() calls are outside the modelled operation '
    'list; operators with an ArraySequence operand, and setitem with an ArraySequence / list-of-arrays value, '
    'are generated only with element-by-element equal row counts (or refused by the count tests: NumPy would '
    'broadcast or raise part-way); an integer ndarray / range index is the same model operation as the list of '
    'its entries, a list of bools the same as a boolean ndarray; '
    'comparison results (bool data) are only read, sliced and copied afterwards; a sequence of another dtype '
    'than the history\'s is only used as the right operand of an in-place operator; non in-place operators are '
    'generated with operands of one dtype (result dtype promotion is not modelled)',
    'Tractogram: data_per_streamline (plain ndarrays, re-allocated by np.concatenate) is not modelled — the '
    'oracle-only `tractogram` stream covers it; Tractogram.copy() is modelled as copy.deepcopy does it (every held '
    'ArraySequence cloned with its whole ndarray, offsets/lengths/_is_view kept, sharing inside the tractogram '
    'kept by the memo — the semantics of deepcopy on ndarrays is trusted), T + U as copy-then-extend; streamlines '
    'and per-point data of one history share one trailing shape; apply_affine / to_world are outside the operation '
    'list',
    'PROVED (unbounded): Inv after every history over ALL operations (inv_run) and after every tractogram '
    'history (tinv_run); list refinement for every operation that does not write through an existing array '
    '(refines_list_partial); growing a view in any way never alters its parent; Tractogram(..), T[idx] and '
    'T.data_per_point[k]=seq change no live sequence; T.extend(U) (also when it raises part-way) changes only '
    'sequences T holds; growing a derived tractogram or an accumulator any number of times never alters any '
    'sequence that existed before it was made; exact characterisation of int/slice setitem and of in-place '
    'arithmetic with a scalar or with an ArraySequence stored in another buffer (all-or-none), and exactly '
    'when NumPy refuses the operation (none); seq[idx] = other through ANY index form: Inv, frame for every '
    'selection and value (setSeq_spec_partial), and for a value stored in another buffer and a selection without '
    'repeats exactly the selected arrays take the value arrays IN SELECTION ORDER (setSeq_all_or_none, '
    'setSeq_selected); T.copy() is an independent deep copy; T + U changes no live sequence for all operands '
    '(empty ones, U = T, failing extends) and, when T has every per-point key of U, its result shares no ndarray '
    'with any older sequence (add_result_fresh), so writes through it reach nothing else '
    '(write_through_fresh_sequence_keeps_others). PARTIAL: seq[idx] = other when value and target share a buffer '
    'or the selection repeats an array has only Inv + frame; add_result_fresh does not cover a per-point key T '
    'lacks (taken over as a VIEW of U\'s entry by PerArrayDict.extend — only possible when T has no rows); no single linked reference run that also carries the '
    'writes (refines_list_partial); in-place arithmetic whose ArraySequence operand shares the buffer '
    '(aliasing) or whose target selects an array twice has only Inv + frame (iopSeq_spec_partial); the contents '
    'a grown tractogram shows (old ++ donor, per key) and that tractograms made by the modelled operations '
    'never hold a common sequence are not theorems (textend_preserves_donor takes the latter as a hypothesis) '
    '— all covered by correspondence + oracle',
    'Basic/PySlice is the specification of Python slicing (validated by the C06 check)',
]
RULE = ('histories over live sequences: exhaustive to depth 2 (full alphabet plus slice assignment of an ArraySequence and reversed list-index assignment of arrays, 7 start states) and 3 (core '
        'alphabet) plus sampled depth-3/4 paths of the full-alphabet tree (quick); exhaustive depth 3 full / '
        'depth 4 core plus sampled depth-3/5 paths (thorough); start states with empty, single-row and '
        'multi-row elements, spare capacity or none, existing views and views of views; random histories '
        'to depth 25 over the full alphabet (append, cached '
        'append, extend list/generator/sequence, ArraySequence(seq), copy, slice/list/mask/int getitem, '
        'int/slice setitem, += -= *= and + - * with an int scalar, += -= *= with a FLOAT scalar (refused on '
        'integer data), += -= *= and + - * < with another live '
        'ArraySequence of matching element lengths (fresh — also of ANOTHER dtype for the in-place forms —, a '
        'copy, a view or the sequence itself; non-compact views as left operands), -s / abs(s), concatenate) '
        'with common shapes (),(2,),(3,),(2,2) and dtypes f8,i8,i4,i2,f4; views made with repeated indices '
        'that cover exactly the parent buffer\'s rows, written through / grown (fancy-full); TRACTOGRAM '
        'histories (model + oracle): Tractogram(seq | list | None, data_per_point from sequences or lists), '
        'T[slice], T[list], T.extend(U) incl. U = T, accumulators growing several times, '
        'T.data_per_point[k] = sequence | list, mismatched keys / row counts (ValueError, also part-way), '
        'T[boolean mask], T.copy(), T + U with EMPTY (Tractogram(), T[:0], T[all-False mask]) and non-empty operands '
        'in both positions and U = T, each followed by writes through the RESULT (element assignment, in-place '
        'arithmetic, scalar fill) while every other live sequence is observed, '
        'interleaved with sequence operations on the sequences the tractograms hold and on the donors: '
        'exhaustive depth 2 + sampled depth 3 over a 19-operation alphabet from 2 start states (thorough: '
        'exhaustive depth 3 + sampled depth 4), random to depth 20; Tractogram slice/extend/+/append stream '
        'with data_per_streamline (oracle only); SETITEM FORMS (systematic + random): target[IDX] = value for '
        'IDX in {slice of any step, list of ints (identity, reversed, permutations keeping first and last in place, '
        'repeats, negative entries), integer ndarray, range, boolean ndarray, list of bools, all-False mask} x '
        'value in {list of arrays, number, fresh ArraySequence, permuting list-index view of a fresh sequence, view '
        'of the SAME buffer (same positions / other positions), permuting view of a copy, one array too many} x '
        'target in {owner, full slice view, reversed view} x element lengths {unequal, all equal, all one, 3 '
        'arrays}; getitem by integer ndarray and range. A history is non-trivial '
        'when it has a write or growth while at least two live sequences exist; distinct by its text.')

PENDING_FINDINGS = [
    {'property': 'C15', 'signature': 'arrayseq:arith-on-empty-sequence:StopIteration', 'status': 'open',
     'what': 'arithmetic operator on an ArraySequence without elements raises StopIteration '
             '(a list of arrays gives an empty result): ArraySequence() + 1',
     'input': {'kind': 'hist', 'shape': [3], 'ops': [['new', 0], ['op', 0, 0, 1]]}},
]

DT_NAMES = ['f8', 'i8', 'i4', 'i2', 'f4', '?']      # tag 5 (bool) only arises as a comparison result
DT_CODE = {np.dtype(n).str: i for i, n in enumerate(DT_NAMES)}
DEFAULT_BYTES = 4 * 1024 * 1024
SHAPES = [(), (2,), (3,), (2, 2)]


GEN_PATH = os.path.join(common.LEAN, 'NibabelModel', 'Generated', 'C15Consts.lean')


def _const_int(node):
    """value of a constant integer expression (`1024 * 1024`)"""
    if isinstance(node, ast.Constant) and isinstance(node.value, int) and not isinstance(node.value, bool):
        return node.value
    if isinstance(node, ast.BinOp) and isinstance(node.op, (ast.Mult, ast.Add, ast.Pow, ast.LShift)):
        a, b = _const_int(node.left), _const_int(node.right)
        return {ast.Mult: a * b, ast.Add: a + b, ast.Pow: a ** b, ast.LShift: a << b}[type(node.op)]
    raise ValueError('not a constant integer expression: ' + ast.dump(node))


def inplace_ok(dt_target, operand):
    """does NumPy accept `arr op= operand` for an array of dtype tag `dt_target` (the result must be castable
    back with 'same_kind')?  Asked of NumPy itself on a one-element array."""
    a = np.ones(1, dtype=DT_NAMES[dt_target])
    try:
        a += operand
    except TypeError:
        return False
    return True


def regen():
    """Constants of array_sequence.py the model uses, read from the CURRENT source (MEGABYTE, the default
    `buffer_size`), and the dtype facts of the NumPy in use (item sizes; which in-place operations NumPy
    refuses because the result cannot be cast back)."""
    src = open(os.path.join(common.REPO, 'nibabel', 'streamlines', 'array_sequence.py')).read()
    tree = ast.parse(src)
    mega = bufsize = None
    for node in tree.body:
        if isinstance(node, ast.Assign) and any(isinstance(t, ast.Name) and t.id == 'MEGABYTE' for t in node.targets):
            mega = _const_int(node.value)
        if isinstance(node, ast.ClassDef) and node.name == 'ArraySequence':
            for f in node.body:
                if isinstance(f, ast.FunctionDef) and f.name == '__init__':
                    names = [a.arg for a in f.args.args]
                    defaults = dict(zip(names[len(names) - len(f.args.defaults):], f.args.defaults))
                    bufsize = _const_int(defaults['buffer_size'])
    if mega is None or bufsize is None:
        raise RuntimeError('MEGABYTE / default buffer_size not found in array_sequence.py')
    nd = len(DT_NAMES)
    b = lambda x: 'true' if x else 'false'
    text = ('/-! GENERATED by harness/props/c15.py regen() from the working tree of nibabel\n'
            '    (nibabel/streamlines/array_sequence.py) and the NumPy in use. Do not edit: rewritten on every run of\n'
            '    `./check C15`. Core Lean only. -/\n'
            'namespace Nb.C15.Gen\n\n'
            '/-- `MEGABYTE`, array_sequence.py -/\n'
            f'def MEGABYTE : Nat := {mega}\n\n'
            '/-- default of `buffer_size` (Mb) in `ArraySequence.__init__` -/\n'
            f'def defaultBufferMb : Nat := {bufsize}\n\n'
            '/-- item size of each dtype tag (' + ' '.join(f'{i}={n}' for i, n in enumerate(DT_NAMES)) + ') -/\n'
            'def itemsizes : List Nat := [' + ', '.join(str(np.dtype(n).itemsize) for n in DT_NAMES) + ']\n\n'
            '/-- NumPy accepts `arr op= 2.0` (Python float) for an array of this dtype tag -/\n'
            'def inplaceFloatOK : List Bool := [' + ', '.join(b(inplace_ok(i, 2.0)) for i in range(nd)) + ']\n\n'
            '/-- NumPy accepts `arr_t op= arr_v`: row = dtype tag of the target, column = of the operand -/\n'
            'def inplaceSeqOK : List (List Bool) := [\n' +
            ',\n'.join('  [' + ', '.join(b(inplace_ok(i, np.ones(1, dtype=DT_NAMES[j]))) for j in range(nd)) + ']'
                       for i in range(nd)) + ']\n\n'
            'end Nb.C15.Gen\n')
    common.write_if_changed(GEN_PATH, text)
    return ['Generated.C15Consts.MEGABYTE', 'Generated.C15Consts.defaultBufferMb', 'Generated.C15Consts.itemsizes',
            'Generated.C15Consts.inplaceFloatOK', 'Generated.C15Consts.inplaceSeqOK']


def width(shape):
    w = 1
    for n in shape:
        w *= n
    return w


# ------------------------------------------------------------------ op encoding
# ops are JSON lists:
#  ['new', B] ['app', t, dt, rows] ['appc', t, dt, rows] ['ext', t, dt, [rows..]] ['extg', t, dt, [rows..]]
#  ['exts', t, u] ['view', t, B] ['copy', t] ['sl', t, a, b, c] ['idx', t, [i..]] ['mask', t, [0/1..]]
#  ['get', t, i] ['set', t, i, rows] ['sets', t, a, b, c, [rows..]] ['iop', t, code, k] ['op', t, code, k]
#  ['cat', [t..]]   ['iopf', t, code, k] `s += float(k)` (a Python float scalar)
#  ['iops', t, v, code] `s op= seqs[v]`   ['ops', t, v, code] `s op seqs[v]` (code 3 = `<`)   ['un', t, code] -s / abs(s)
#  (the last three: correspondence + oracle only, no theorem)
#  ['idxa', t, [i..]] s[np.array([i..])] (integer ndarray)   ['idxr', t, a, b, c] s[range(a, b, c)]
#  ['setv', t, IDX, v] `s[IDX] = seqs[v]` (ArraySequence value)   ['setl', t, IDX, [rows..]] `s[IDX] = [arr..]`
#  ['setk', t, IDX, k] `s[IDX] = k` (a Python number)
#  IDX = ['s', a, b, c] slice | ['f', [i..]] list of ints | ['a', [i..]] integer ndarray | ['r', a, b, c] range |
#        ['m', [0/1..]] boolean ndarray | ['ml', [0/1..]] list of bools
# rows = list of flat integer rows (one array); B = buffer bytes (0 = the default 4 Mb)
# Tractogram operations (T, U = tractogram numbers in creation order; k = key number, real key 'k<k>'):
#  ['tnew', s|None, [[k, f]..], aslist]  Tractogram(seqs[s], data_per_point={k: seqs[f]})  (aslist: list(seqs[.]))
#  ['tsl', T, a, b, c]  T[a:b:c]     ['tidx', T, [i..]]  T[[i..]]
#  ['text', T, U]  T.extend(U) / T += U       ['tset', T, k, s, aslist]  T.data_per_point[k] = seqs[s]
#  ['tmask', T, [0/1..]]  T[np.array([True,..])]     ['tcopy', T]  T.copy()     ['tadd', T, U]  T + U
# every sequence a tractogram holds becomes a live sequence (streamlines first, then per-point data in
# dict order), so all the sequence operations above apply to it

def _o(v):
    return '_' if v is None else str(int(v))


def fmt_elem(rows):
    return 'e' if not rows else '/'.join(','.join(str(int(x)) for x in r) for r in rows)


def fmt_elems(els):
    return '~' if not els else '+'.join(fmt_elem(e) for e in els)


def idx_positions(n, idx):
    """positions an index form selects in a sequence of n arrays, or the error it raises"""
    f = idx[0]
    if f == 's':
        if idx[3] == 0:
            return 'ERR:ValueError'
        return list(range(n))[slice(idx[1], idx[2], idx[3])]
    if f in ('f', 'a', 'r'):
        items = list(range(idx[1], idx[2], idx[3])) if f == 'r' else idx[1]
        if any(not -n <= i < n for i in items):
            return 'ERR:IndexError'
        return [i % n for i in items]
    if f in ('m', 'ml'):
        if len(idx[1]) != n and len(idx[1]) != 0:        # NumPy accepts an empty boolean index on any length
            return 'ERR:IndexError'
        return [i for i in range(n) if idx[1][i]] if idx[1] else []
    raise ValueError(idx)


def fmt_idx(idx):
    f = idx[0]
    if f == 's':
        return f'S!{_o(idx[1])}!{_o(idx[2])}!{_o(idx[3])}'
    if f in ('f', 'a'):
        return 'F!' + (','.join(str(int(i)) for i in idx[1]) or '-')
    if f == 'r':
        return 'F!' + (','.join(str(i) for i in range(idx[1], idx[2], idx[3])) or '-')
    if f in ('m', 'ml'):
        return 'M!' + (''.join(str(int(b)) for b in idx[1]) or '-')
    raise ValueError(idx)


def np_index(idx):
    """the Python object of an index form"""
    f = idx[0]
    if f == 's':
        return slice(idx[1], idx[2], idx[3])
    if f == 'f':
        return [int(i) for i in idx[1]]
    if f == 'a':
        return np.array(idx[1], dtype=np.int64 if len(idx[1]) % 2 else np.int32)
    if f == 'r':
        return range(idx[1], idx[2], idx[3])
    if f == 'm':
        return np.array(idx[1], dtype=bool)
    if f == 'ml':
        return [bool(b) for b in idx[1]]
    raise ValueError(idx)


def fmt_op(op, w):
    k = op[0]
    if k == 'idxa':
        return f'idx:{op[1]}:' + (','.join(str(i) for i in op[2]) or '-')
    if k == 'idxr':
        return f'idx:{op[1]}:' + (','.join(str(i) for i in range(op[2], op[3], op[4])) or '-')
    if k == 'setv':
        return f'setv:{op[1]}:{fmt_idx(op[2])}:{op[3]}'
    if k == 'setl':
        return f'setl:{op[1]}:{fmt_idx(op[2])}:{fmt_elems(op[3])}'
    if k == 'setk':
        return f'setk:{op[1]}:{fmt_idx(op[2])}:{op[3]}'
    if k == 'tmask':
        return f'tmask:{op[1]}:' + (''.join(str(int(b)) for b in op[2]) or '-')
    if k == 'tcopy':
        return f'tcopy:{op[1]}'
    if k == 'tadd':
        return f'tadd:{op[1]}:{op[2]}:{w}'
    if k == 'new':
        return f'new:{op[1] or DEFAULT_BYTES}'
    if k == 'app':
        return f'app:{op[1]}:{w}:{op[2]}:{fmt_elem(op[3])}'
    if k == 'appc':
        return f'extg:{op[1]}:{w}:{op[2]}:{fmt_elems([op[3]])}'
    if k in ('ext', 'extg'):
        return f'{k}:{op[1]}:{w}:{op[2]}:{fmt_elems(op[3])}'
    if k == 'exts':
        return f'exts:{op[1]}:{op[2]}:{w}'
    if k == 'view':
        return f'view:{op[1]}:{op[2] or DEFAULT_BYTES}'
    if k == 'copy':
        return f'copy:{op[1]}'
    if k == 'sl':
        return f'sl:{op[1]}:{_o(op[2])}:{_o(op[3])}:{_o(op[4])}'
    if k == 'idx':
        return f'idx:{op[1]}:' + (','.join(str(i) for i in op[2]) or '-')
    if k == 'mask':
        return f'mask:{op[1]}:' + (''.join(str(int(b)) for b in op[2]) or '-')
    if k == 'get':
        return f'get:{op[1]}:{op[2]}'
    if k == 'set':
        return f'set:{op[1]}:{op[2]}:{fmt_elem(op[3])}'
    if k == 'sets':
        return f'sets:{op[1]}:{_o(op[2])}:{_o(op[3])}:{_o(op[4])}:{fmt_elems(op[5])}'
    if k in ('iop', 'op', 'iopf'):
        return f'{k}:{op[1]}:{op[2]}:{op[3]}'
    if k == 'cat':
        return 'cat:' + ','.join(str(t) for t in op[1]) + f':{w}'
    if k in ('iops', 'ops'):
        return f'{k}:{op[1]}:{op[2]}:{op[3]}'
    if k == 'un':
        return f'un:{op[1]}:{op[2]}'
    if k == 'tnew':
        return (f'tnew:{_o(op[1])}:' + (','.join(f'{a}={b}' for a, b in op[2]) or '-') + f':{int(op[3])}:{w}')
    if k == 'tsl':
        return f'tsl:{op[1]}:{_o(op[2])}:{_o(op[3])}:{_o(op[4])}'
    if k == 'tidx':
        return f'tidx:{op[1]}:' + (','.join(str(i) for i in op[2]) or '-')
    if k == 'text':
        return f'text:{op[1]}:{op[2]}:{w}'
    if k == 'tset':
        return f'tset:{op[1]}:{op[2]}:{op[3]}:{int(op[4])}:{w}'
    raise ValueError(op)


GROW = ('app', 'appc', 'ext', 'extg', 'exts')
WRITE = ('set', 'sets', 'iop', 'iops', 'iopf', 'setv', 'setl', 'setk')
CREATE = ('new', 'view', 'copy', 'sl', 'idx', 'mask', 'op', 'cat', 'ops', 'un', 'idxa', 'idxr')
TWO_SEQ = ('exts', 'iops', 'ops')
TRACT = ('tnew', 'tsl', 'tidx', 'text', 'tset', 'tmask', 'tcopy', 'tadd')


def seq_refs(op):
    """positions in `op` that hold live-sequence numbers (sequence operations only)"""
    k = op[0]
    if k in ('new', 'cat') or k in TRACT:
        return []
    if k in TWO_SEQ:
        return [1, 2]
    if k == 'setv':
        return [1, 3]
    return [1]


def mk_hist(shape, ops, stream='random'):
    w = width(shape)
    line = 'C15 hist ' + ' '.join(fmt_op(op, w) for op in ops)
    data = {'kind': 'hist', 'shape': list(shape), 'ops': ops}
    nlive, nontrivial = 0, False
    for op in ops:
        if op[0] in CREATE or op[0] in ('tnew', 'tsl', 'tidx', 'tset', 'tmask', 'tcopy', 'tadd'):
            nlive += 1 if op[0] != 'tnew' else 1 + len(op[2])
        elif nlive >= 2 and (op[0] in GROW or op[0] in WRITE or op[0] == 'text'):
            nontrivial = True
    return Case(line, data, line if nontrivial else None, stream)


def case_from_data(d):
    if d['kind'] == 'hist':
        return mk_hist(tuple(d['shape']), d['ops'], d.get('stream', 'corpus'))
    if d['kind'] == 'tract':
        return Case(None, d, ('tract', str(d)), 'tractogram')
    raise ValueError(d)


# ------------------------------------------------------------------ implementation side

def to_arr(rows, dt, shape):
    return np.array(rows, dtype=DT_NAMES[dt]).reshape((len(rows),) + tuple(shape))


def rows_of(arr, w):
    a = np.asarray(arr)
    flat = a.reshape(a.shape[0], w).tolist() if a.size else [[] for _ in range(a.shape[0])]
    if a.dtype.kind == 'b':
        return [[int(x) for x in r] for r in flat]
    if a.dtype.kind == 'f':
        return [[int(x) if float(x).is_integer() else x for x in r] for r in flat]
    return flat


def observe(seq, w, full=True):
    """(contents as lists of flat integer rows, dtype tag or None, len, total_nb_rows, int-index view)"""
    cont = [rows_of(a, w) for a in seq]
    dts = {a.dtype.str for a in seq}
    dt = DT_CODE.get(next(iter(dts)), 9) if len(dts) == 1 else (None if not dts else 8)
    byint = [rows_of(seq[i], w) for i in range(len(seq))] if full else cont
    return cont, dt, len(seq), int(seq.total_nb_rows), byint


def show_state(obs):
    return '|'.join(str(c).replace(' ', '') + ':' + ('-' if not c else str(dt)) for c, dt, *_ in obs)


def key_name(k):
    return f'k{k}'


class TractRec:
    """a real Tractogram plus which live-sequence numbers its sequences have"""

    def __init__(self, obj, sl):
        self.obj, self.sl, self.dpp = obj, sl, {}

    def adopt_new_keys(self, seqs):
        """per-point sequences stored under keys not seen before become live sequences (dict order)"""
        for name, val in self.obj.data_per_point.store.items():
            if name not in self.dpp:
                self.dpp[name] = len(seqs)
                seqs.append(val)

    def show(self):
        return (f'{self.sl};' + ','.join(f'{name[1:]}={self.dpp[name]}' for name in self.obj.data_per_point.store)
                + f';{int(self.obj.data_per_point.n_rows)}')


def exec_tract_op(seqs, tracts, op):
    """Run one Tractogram op on the real code; the sequences the tractograms hold are appended to `seqs`
    by the bookkeeping rule of the operation (NOT by object identity: a sequence stored as the same object
    it was given is listed a second time, and the reference then sees it change with the other one)."""
    from nibabel.streamlines.tractogram import Tractogram
    k = op[0]
    if k == 'tnew':
        give = (lambda i: list(seqs[i])) if op[3] else (lambda i: seqs[i])
        t = Tractogram(None if op[1] is None else give(op[1]),
                       data_per_point={key_name(a): give(f) for a, f in op[2]})
        rec = TractRec(t, len(seqs))
        seqs.append(t.streamlines)
        rec.adopt_new_keys(seqs)
        tracts.append(rec)
    elif k in ('tsl', 'tidx', 'tmask', 'tcopy', 'tadd'):
        T = tracts[op[1]]
        if k == 'tcopy':
            t = T.obj.copy()
        elif k == 'tadd':
            t = T.obj + tracts[op[2]].obj
        elif k == 'tmask':
            t = T.obj[np.array(op[2], dtype=bool)]
        else:
            t = T.obj[slice(op[2], op[3], op[4])] if k == 'tsl' else T.obj[[int(i) for i in op[2]]]
        rec = TractRec(t, len(seqs))
        seqs.append(t.streamlines)
        rec.adopt_new_keys(seqs)
        tracts.append(rec)
    elif k == 'text':
        T, U = tracts[op[1]], tracts[op[2]]
        try:
            T.obj.extend(U.obj)
        finally:
            T.adopt_new_keys(seqs)
    elif k == 'tset':
        T = tracts[op[1]]
        name = key_name(op[2])
        T.obj.data_per_point[name] = list(seqs[op[3]]) if op[4] else seqs[op[3]]
        T.dpp[name] = len(seqs)
        seqs.append(T.obj.data_per_point.store[name])
    else:
        raise ValueError(op)
    return 'ok'


def exec_op(seqs, op, shape, w, tracts=None):
    """Run one op on the real code.  Returns status string; may append to `seqs`."""
    from nibabel.streamlines.array_sequence import ArraySequence, concatenate
    k = op[0]
    if k in TRACT:
        return exec_tract_op(seqs, tracts, op)
    if k == 'new':
        seqs.append(ArraySequence(buffer_size=op[1] / 2 ** 20) if op[1] else ArraySequence())
    elif k == 'app':
        seqs[op[1]].append(to_arr(op[3], op[2], shape))
    elif k == 'appc':
        seqs[op[1]].append(to_arr(op[3], op[2], shape), cache_build=True)
        seqs[op[1]].finalize_append()
    elif k == 'ext':
        seqs[op[1]].extend([to_arr(e, op[2], shape) for e in op[3]])
    elif k == 'extg':
        seqs[op[1]].extend(to_arr(e, op[2], shape) for e in op[3])
    elif k == 'exts':
        seqs[op[1]].extend(seqs[op[2]])
    elif k == 'view':
        seqs.append(ArraySequence(seqs[op[1]], buffer_size=op[2] / 2 ** 20) if op[2]
                    else ArraySequence(seqs[op[1]]))
    elif k == 'copy':
        seqs.append(seqs[op[1]].copy())
    elif k == 'sl':
        seqs.append(seqs[op[1]][slice(op[2], op[3], op[4])])
    elif k == 'idx':
        seqs.append(seqs[op[1]][[int(i) for i in op[2]]])
    elif k == 'mask':
        seqs.append(seqs[op[1]][np.array(op[2], dtype=bool)])
    elif k == 'idxa':
        seqs.append(seqs[op[1]][np.array(op[2], dtype=np.intp)])
    elif k == 'idxr':
        seqs.append(seqs[op[1]][range(op[2], op[3], op[4])])
    elif k == 'setv':
        seqs[op[1]][np_index(op[2])] = seqs[op[3]]
    elif k == 'setl':
        s = seqs[op[1]]
        dt = DT_CODE.get(s._data.dtype.str, 1)
        s[np_index(op[2])] = [to_arr(e, dt, shape) for e in op[3]]
    elif k == 'setk':
        seqs[op[1]][np_index(op[2])] = int(op[3])
    elif k == 'get':
        return 'get=' + str(rows_of(seqs[op[1]][op[2]], w)).replace(' ', '')
    elif k == 'set':
        s = seqs[op[1]]
        s[op[2]] = to_arr(op[3], DT_CODE.get(s._data.dtype.str, 1), shape)
    elif k == 'sets':
        s = seqs[op[1]]
        dt = DT_CODE.get(s._data.dtype.str, 1)
        s[slice(op[2], op[3], op[4])] = [to_arr(e, dt, shape) for e in op[5]]
    elif k in ('iop', 'iopf'):
        s = seqs[op[1]]
        val = float(op[3]) if k == 'iopf' else op[3]
        if op[2] == 0:
            s += val
        elif op[2] == 1:
            s *= val
        else:
            s -= val
    elif k == 'op':
        s = seqs[op[1]]
        seqs.append(s + op[3] if op[2] == 0 else s * op[3] if op[2] == 1 else s - op[3])
    elif k == 'cat':
        seqs.append(concatenate([seqs[t] for t in op[1]], axis=0))
    elif k == 'iops':
        s, v = seqs[op[1]], seqs[op[2]]
        if op[3] == 0:
            s += v
        elif op[3] == 1:
            s *= v
        else:
            s -= v
    elif k == 'ops':
        s, v = seqs[op[1]], seqs[op[2]]
        seqs.append(s + v if op[3] == 0 else s * v if op[3] == 1 else s - v if op[3] == 2 else s < v)
    elif k == 'un':
        seqs.append(-seqs[op[1]] if op[2] == 0 else abs(seqs[op[1]]))
    else:
        raise ValueError(op)
    return 'ok'


def impl(case):
    d = case.data
    if d['kind'] == 'tract':
        return impl_tract(case)
    shape = tuple(d['shape'])
    w = width(shape)
    seqs, tracts, chunks, steps = [], [], [], []
    for op in d['ops']:
        n0, nt0 = len(seqs), len(tracts)
        try:
            status = exec_op(seqs, op, shape, w, tracts)
        except (IndexError, ValueError, StopIteration, TypeError) as e:
            status = 'ERR:' + ('TypeError' if isinstance(e, TypeError) else type(e).__name__)
            if op[0] != 'text':              # Tractogram.extend may raise part-way: what was done stays done
                del seqs[n0:]
                del tracts[nt0:]
        if op[0] in TRACT:
            obs = [observe(s, w, True) for s in seqs]
        else:
            tgt = op[1] if isinstance(op[1], int) and op[0] != 'new' else -1
            obs = [observe(s, w, i == tgt or i >= n0) for i, s in enumerate(seqs)]
        steps.append((status, obs))
        chunks.append(status + '|' + show_state(obs) +
                      (' @ ' + '/'.join(t.show() for t in tracts) if tracts else ''))
    case.extra = {'steps': steps}
    return ' ; '.join(chunks)


# ------------------------------------------------------------------ reference: lists of arrays + links

class Ref:
    """One live sequence of the reference: a plain list of [identity, rows] plus the group of
    sequences it is linked with (documented view semantics)."""
    __slots__ = ('items', 'grp', 'is_view', 'dt')

    def __init__(self, items, grp, is_view, dt):
        self.items, self.grp, self.is_view, self.dt = items, grp, is_view, dt

    def values(self):
        return [v for _, v in self.items]


class Invalid(Exception):
    """the history is ill-formed with respect to the reference (not a property question)"""


class RefWorld:
    def __init__(self):
        self.live = []
        self.nid = 0
        self.ngrp = 0
        self.maybe_parent = {}    # group -> group it MAY still be the same buffer as (owner growth)
        self.tracts = []          # {'sl': live index, 'dpp': {key: live index} (dict order), 'n': n_rows}

    def fresh_grp(self):
        self.ngrp += 1
        return self.ngrp

    def new_items(self, arrays):
        out = []
        for a in arrays:
            if len(a):                       # zero-row elements are never stored
                out.append([self.nid, [list(r) for r in a]])
                self.nid += 1
        return out

    def chain(self, g):
        out = [g]
        while out[-1] in self.maybe_parent:
            out.append(self.maybe_parent[out[-1]])
        return out

    def relation(self, a, b):
        """'same' | 'maybe' | 'different' for two groups"""
        if a == b:
            return 'same'
        if b in self.chain(a) or a in self.chain(b):
            return 'maybe'
        return 'different'

    def merge(self, a, b):
        ca, cb = self.chain(a), self.chain(b)
        lo, path = (b, ca[:ca.index(b) + 1]) if b in ca else (a, cb[:cb.index(a) + 1])
        for r in self.live:
            if r.grp in path:
                r.grp = lo
        for g in path:
            if g != lo:
                self.maybe_parent.pop(g, None)

    def cut(self, a, b):
        if self.maybe_parent.get(a) == b:
            del self.maybe_parent[a]
        elif self.maybe_parent.get(b) == a:
            del self.maybe_parent[b]

    def grown(self, t, added, sized_call=False):
        """bookkeeping when sequence t got `added` new stored elements"""
        r = self.live[t]
        if r.is_view and (added or sized_call):
            # a view takes its own copy of the data before it grows (also when extend() is given a
            # non-empty list of zero-row arrays): element-wise copies, linked to nothing
            r.grp = self.fresh_grp()
            r.is_view = False
            for it in r.items:
                it[0] = self.nid
                self.nid += 1
        elif added or sized_call:
            g = self.fresh_grp()               # an owner may or may not have been reallocated
            self.maybe_parent[g] = r.grp
            r.grp = g
        if not added:
            return
        if r.dt is None or len(r.items) == len(added[0]):      # nothing stored before: the data take this dtype
            r.dt = added[2]


def ref_positions(n, op):
    k = op[0]
    if k == 'sl':
        if op[4] == 0:
            return 'ERR:ValueError'
        return list(range(n))[slice(op[2], op[3], op[4])]
    if k in ('idx', 'idxa'):
        if any(not -n <= i < n for i in op[2]):
            return 'ERR:IndexError'
        return [i % n for i in op[2]]
    if k == 'idxr':
        return idx_positions(n, ['r', op[2], op[3], op[4]])
    if k == 'mask':
        if len(op[2]) != n and len(op[2]) != 0:          # NumPy accepts an empty boolean index on any length
            return 'ERR:IndexError'
        return [i for i in range(n) if op[2][i]] if op[2] else []
    raise ValueError(op)


ARITH = {0: lambda x, k: x + k, 1: lambda x, k: x * k, 2: lambda x, k: x - k}
ARITH2 = dict(ARITH)
ARITH2[3] = lambda x, y: int(x < y)


def same(got, want):
    return got == want


def oracle(case, out):
    d = case.data
    if d['kind'] == 'tract':
        return oracle_tract(case, out)
    steps = (case.extra or {}).get('steps')
    if steps is None or len(steps) != len(d['ops']):
        return f'implementation raised outside the modelled errors: {out[:200]}'
    try:
        return oracle_hist(d, steps)
    except Invalid:
        return None


def ref_step(W, op, w, dts=None):
    """One operation on the reference (plain lists of arrays + links).  Returns (expected status, cells
    written through existing arrays or None, sequence operated on or None, sequences the operation may
    grow); raises Invalid for an ill-formed operation.  `dts`: dtype tag of the arrays of each live sequence
    as the implementation showed them before the operation (None: the reference's own bookkeeping)."""
    k = op[0]

    def dt_of(i):
        if dts is not None and i < len(dts) and dts[i] is not None:
            return dts[i] if dts[i] < len(DT_NAMES) else None
        return W.live[i].dt

    if k in TRACT:
        return ref_tract_step(W, op, w)
    for t in (op[1] if k == 'cat' else [op[i] for i in seq_refs(op)]):
        if not 0 <= t < len(W.live):
            raise Invalid()
    written = None
    target = op[1] if k != 'new' and k != 'cat' else None
    expect_status = 'ok'
    written = None
    target = op[1] if k != 'new' and k != 'cat' else None
    if k == 'new':
        W.live.append(Ref([], W.fresh_grp(), False, None))
    elif k in ('app', 'appc'):
        if any(len(r) != w for r in op[3]):
            raise Invalid()
        items = W.new_items([op[3]])
        W.live[target].items += items
        W.grown(target, (items, None, op[2]) if items else None)
    elif k in ('ext', 'extg'):
        items = W.new_items(op[3])
        W.live[target].items += items
        W.grown(target, (items, None, op[2]) if items else None, k == 'ext' and len(op[3]) > 0)
    elif k == 'exts':
        src = W.live[op[2]]
        items = W.new_items(src.values())
        W.live[target].items += items
        W.grown(target, (items, None, src.dt) if items else None, len(src.items) > 0)
    elif k == 'view':
        s = W.live[target]
        W.live.append(Ref([[i, [list(r) for r in v]] for i, v in s.items], s.grp, True, s.dt))
    elif k == 'copy':
        s = W.live[target]
        W.live.append(Ref(W.new_items(s.values()), W.fresh_grp(), False, s.dt))
    elif k in ('sl', 'idx', 'mask', 'idxa', 'idxr'):
        s = W.live[target]
        pos = ref_positions(len(s.items), op)
        if isinstance(pos, str):
            expect_status = pos
        else:
            W.live.append(Ref([[s.items[p][0], [list(r) for r in s.items[p][1]]] for p in pos],
                              s.grp, True, s.dt))
    elif k == 'get':
        s = W.live[target]
        if not -len(s.items) <= op[2] < len(s.items):
            expect_status = 'ERR:IndexError'
        else:
            expect_status = 'get=' + str(s.items[op[2]][1]).replace(' ', '')
    elif k == 'set':
        s = W.live[target]
        if not -len(s.items) <= op[2] < len(s.items):
            expect_status = 'ERR:IndexError'
        else:
            ident, old = s.items[op[2]]
            if len(old) != len(op[3]) or any(len(r) != w for r in op[3]):
                raise Invalid()
            written = {ident: [list(r) for r in op[3]]}
    elif k == 'sets':
        s = W.live[target]
        pos = ref_positions(len(s.items), ['sl'] + op[1:5])
        if isinstance(pos, str):
            expect_status = pos
        else:
            if len(pos) != len(op[5]) or any(len(s.items[p][1]) != len(e) for p, e in zip(pos, op[5])):
                raise Invalid()
            written = {}
            for p, e in zip(pos, op[5]):          # a list: later assignments win
                written[s.items[p][0]] = [list(r) for r in e]
    elif k in ('setl', 'setk'):
        s = W.live[target]
        pos = idx_positions(len(s.items), op[2])
        if isinstance(pos, str):
            expect_status = pos
        else:
            if k == 'setl':
                if len(pos) != len(op[3]) or any(len(s.items[p][1]) != len(e) or any(len(r) != w for r in e)
                                                 for p, e in zip(pos, op[3])):
                    raise Invalid()
                vals = op[3]
            else:
                vals = [[[op[3]] * w for _ in s.items[p][1]] for p in pos]
            written = {}
            for p, e in zip(pos, vals):           # `for a, e in zip(selected, values): a[:] = e` — later ones win
                written[s.items[p][0]] = [list(r) for r in e]
    elif k == 'setv':
        # `s[IDX] = other`: `for a, b in zip(selected arrays of s, other): a[:] = b`, one after the other (the
        # arrays of `other` may BE arrays of `s`); a different number of arrays or of rows is refused
        s, v = W.live[target], W.live[op[3]]
        pos = idx_positions(len(s.items), op[2])
        if isinstance(pos, str):
            expect_status = pos
        elif len(pos) != len(v.items) or sum(len(s.items[p][1]) for p in pos) != sum(len(a) for a in v.values()):
            expect_status = 'ERR:ValueError'
        elif any(len(s.items[p][1]) != len(b) for p, b in zip(pos, v.values())):
            raise Invalid()                        # NumPy broadcasts or raises part-way
        else:
            rel = 'same' if v is s else W.relation(s.grp, v.grp)
            if rel == 'maybe':
                raise Invalid()                    # cannot tell whether target and value share arrays
            cells = {}
            for p, (vid, vval) in zip(pos, v.items):
                rhs = cells[vid] if rel == 'same' and vid in cells else vval
                cells[s.items[p][0]] = [list(r) for r in rhs]
            written = cells
    elif k in ('iop', 'iopf'):
        s = W.live[target]
        if not s.items:
            pass                                   # a list of arrays: nothing to do, no error
        elif k == 'iopf' and dt_of(target) is not None and not inplace_ok(dt_of(target), float(op[3])):
            expect_status = 'ERR:TypeError'        # `a += 2.0` on an integer array: NumPy refuses, nothing changes
        else:
            f = ARITH[op[2]]
            cells = {}
            for ident, v in s.items:               # `for a in lst: a op= k` with aliasing
                cur = cells.get(ident, v)
                cells[ident] = [[f(x, op[3]) for x in r] for r in cur]
            written = cells
    elif k == 'op':
        s = W.live[target]
        f = ARITH[op[2]]
        W.live.append(Ref(W.new_items([[[f(x, op[3]) for x in r] for r in v] for v in s.values()]),
                          W.fresh_grp(), False, s.dt))
    elif k in ('iops', 'ops'):
        s, v = W.live[target], W.live[op[2]]
        f = ARITH2[op[3]]
        if len(s.items) != len(v.items) or sum(len(a) for a in s.values()) != sum(len(a) for a in v.values()):
            expect_status = 'ERR:ValueError'        # _check_shape (zip of unequal lists in list terms)
        elif any(len(a) != len(b) for a, b in zip(s.values(), v.values())):
            raise Invalid()
        elif k == 'iops' and s.items and dt_of(target) is not None and dt_of(op[2]) is not None and \
                not inplace_ok(dt_of(target), np.ones(1, dtype=DT_NAMES[dt_of(op[2])])):
            expect_status = 'ERR:TypeError'        # `a += b` with b of a wider kind: NumPy refuses, nothing changes
        elif k == 'ops':
            W.live.append(Ref(W.new_items([[[f(x, y) for x, y in zip(ra, rb)] for ra, rb in zip(a, b)]
                                           for a, b in zip(s.values(), v.values())]),
                              W.fresh_grp(), False, s.dt))
        else:
            rel = 'same' if v is s else W.relation(s.grp, v.grp)
            if rel == 'maybe':
                raise Invalid()                     # cannot tell whether the operands alias
            cells = {}
            for (ident, val), (vid, vval) in zip(s.items, v.items):   # `for a, b in zip(S, V): a op= b`
                cur = cells.get(ident, val)
                rhs = cells[vid] if rel == 'same' and vid in cells else vval
                cells[ident] = [[f(x, y) for x, y in zip(ra, rb)] for ra, rb in zip(cur, rhs)]
            written = cells
    elif k == 'un':
        s = W.live[target]
        g = (lambda x: -x) if op[2] == 0 else abs
        W.live.append(Ref(W.new_items([[[g(x) for x in r] for r in a] for a in s.values()]),
                          W.fresh_grp(), False, s.dt))
    elif k == 'cat':
        if not op[1]:
            raise Invalid()
        vals = [v for t in op[1] for v in W.live[t].values()]
        W.live.append(Ref(W.new_items(vals), W.fresh_grp(), False,
                          next((W.live[t].dt for t in op[1] if W.live[t].items), None)))
    else:
        raise Invalid()

    return expect_status, written, target, ([] if target is None else [target])


def ref_seq_from(W, src, aslist):
    """`ArraySequence(value)`: a view of an ArraySequence; a new sequence filled from a list of arrays"""
    s = W.live[src]
    if aslist:
        return Ref(W.new_items(s.values()), W.fresh_grp(), False, s.dt)
    return Ref([[i, [list(r) for r in v]] for i, v in s.items], s.grp, True, s.dt)


def ref_rows(r):
    return sum(len(v) for v in r.values())


def ref_dpp_check(n_rows, r):
    return not (0 < n_rows != ref_rows(r))


def ref_tract_step(W, op, w):
    """Tractogram operations in list terms: a tractogram is a list of arrays (streamlines) plus one list of
    arrays per key; `Tractogram(seq)`, `T[idx]` and a per-point sequence taken over from another tractogram
    are views (linked until they grow); extend is list extend on the streamlines and on every key."""
    k = op[0]
    n = len(W.live)
    if k == 'tnew':
        if (op[1] is not None and not 0 <= op[1] < n) or any(not 0 <= f < n for _, f in op[2]) or \
                len({a for a, _ in op[2]}) != len(op[2]):
            raise Invalid()
        new = [Ref([], W.fresh_grp(), False, None) if op[1] is None else ref_seq_from(W, op[1], op[3])]
        rows = ref_rows(new[0])
        dpp = {}
        for a, f in op[2]:
            r = ref_seq_from(W, f, op[3])
            if not ref_dpp_check(rows, r):
                return 'ERR:ValueError', None, None, []
            dpp[a] = n + len(new)
            new.append(r)
        W.live.extend(new)
        W.tracts.append({'sl': n, 'dpp': dpp, 'n': rows})
        return 'ok', None, None, []
    if not 0 <= op[1] < len(W.tracts):
        raise Invalid()
    T = W.tracts[op[1]]
    if k == 'tcopy':
        new, dpp = ref_tcopy(W, T)
        W.live.extend(new)
        W.tracts.append({'sl': n, 'dpp': dpp, 'n': T['n']})
        return 'ok', None, None, []
    if k == 'tadd':
        # `T + U`: a deep copy of T, extended by U; the result is a NEW object — when the extend raises
        # nothing live has changed
        if not 0 <= op[2] < len(W.tracts):
            raise Invalid()
        saved = dict(W.maybe_parent)
        new, dpp = ref_tcopy(W, T)
        W.live.extend(new)
        X = {'sl': n, 'dpp': dpp, 'n': T['n']}
        W.tracts.append(X)
        status, grown = ref_textend(W, X, W.tracts[op[2]])
        if status != 'ok':
            del W.live[n:]
            W.tracts.pop()
            W.maybe_parent = saved
            return status, None, None, []
        return 'ok', None, None, []
    if k in ('tsl', 'tidx', 'tmask'):
        sel = (['sl', 0] + op[2:5]) if k == 'tsl' else ['idx', 0, op[2]] if k == 'tidx' else ['mask', 0, op[2]]
        new = []
        for src in [T['sl']] + list(T['dpp'].values()):
            s = W.live[src]
            pos = ref_positions(len(s.items), sel)
            if isinstance(pos, str):
                return pos, None, None, []
            new.append(Ref([[s.items[p][0], [list(r) for r in s.items[p][1]]] for p in pos], s.grp, True, s.dt))
        rows = ref_rows(new[0])
        if any(not ref_dpp_check(rows, r) for r in new[1:]):
            return 'ERR:ValueError', None, None, []
        W.live.extend(new)
        W.tracts.append({'sl': n, 'dpp': {a: n + 1 + i for i, a in enumerate(T['dpp'])}, 'n': rows})
        return 'ok', None, None, []
    if k == 'text':
        if not 0 <= op[2] < len(W.tracts):
            raise Invalid()
        status, grown = ref_textend(W, T, W.tracts[op[2]])
        return status, None, None, grown
    if k == 'tset':
        if not 0 <= op[3] < n:
            raise Invalid()
        r = ref_seq_from(W, op[3], op[4])
        if not ref_dpp_check(T['n'], r):
            return 'ERR:ValueError', None, None, []
        T['dpp'][op[2]] = n
        W.live.append(r)
        return 'ok', None, None, []
    raise Invalid()


def ref_textend(W, T, U):
    """`T.extend(U)` in list terms: list extend on the streamlines, then on every key; a key T lacks is taken
    over as a VIEW of U's sequence (`ArraySequence(other[key])`).  Returns (status, sequences grown)."""
    grown = [T['sl']]

    def extend(t, u):
        src = W.live[u]
        items = W.new_items(src.values())
        W.live[t].items += items
        W.grown(t, (items, None, src.dt) if items else None, len(src.items) > 0)

    extend(T['sl'], U['sl'])
    if T['dpp'] and U['dpp'] and sorted(T['dpp']) != sorted(U['dpp']):
        return 'ERR:ValueError', grown
    T['n'] += U['n'] if U is not T else T['n']
    for a, f in list(U['dpp'].items()):
        if a not in T['dpp']:
            r = ref_seq_from(W, f, False)
            if not ref_dpp_check(T['n'], r):
                return 'ERR:ValueError', grown
            T['dpp'][a] = len(W.live)
            W.live.append(r)
        else:
            extend(T['dpp'][a], f)
            grown.append(T['dpp'][a])
    return 'ok', grown


def ref_tcopy(W, T):
    """`copy.deepcopy(T)` in list terms: every array is copied; two sequences of T that hold the SAME array hold
    the same copy afterwards (deepcopy keeps the sharing inside the object), nothing is shared with T."""
    n = len(W.live)
    members = [T['sl']] + list(T['dpp'].values())
    idmap, gmap, new = {}, {}, []
    for m in members:
        r = W.live[m]
        items = []
        for ident, v in r.items:
            if ident not in idmap:
                idmap[ident] = W.nid
                W.nid += 1
            items.append([idmap[ident], [list(x) for x in v]])
        if r.grp not in gmap:
            gmap[r.grp] = W.fresh_grp()
        new.append(Ref(items, gmap[r.grp], r.is_view, r.dt))
    for g, g2 in gmap.items():                  # "may be the same ndarray" carries over to the copies
        for anc in W.chain(g)[1:]:
            if anc in gmap:
                W.maybe_parent[g2] = gmap[anc]
                break
    return new, {a: n + 1 + i for i, a in enumerate(T['dpp'])}


def oracle_hist(d, steps):
    W = RefWorld()
    w = width(d['shape'])
    for n, (op, (status, obs)) in enumerate(zip(d['ops'], steps)):
        where = f'step {n} {op}'
        before = [[[list(r) for r in v] for v in x.values()] for x in W.live]
        expect_status, written, target, grown = ref_step(W, op, w, [o[1] for o in steps[n - 1][1]] if n else [])

        # ---- compare with the implementation
        if status != expect_status:
            return f'{where}: implementation gave {status[:80]}, a list of arrays gives {expect_status[:80]}'
        if len(obs) != len(W.live):
            return f'{where}: {len(obs)} live sequences, expected {len(W.live)}'
        if written is not None:
            bad = check_write(W, target, written, obs, before, where)
            if bad:
                return bad
        for i, (r, (cont, dt, ln, tot, byint)) in enumerate(zip(W.live, obs)):
            want = r.values()
            if cont != want:
                if i == target or i in grown or i >= len(before):
                    return f'{where}: sequence {i} is {cont}, a list of arrays gives {want}'
                return (f'{where}: sequence {i} (not the one operated on) changed to {cont}, expected {want}')
            if byint != want or ln != len(want) or tot != sum(len(v) for v in want):
                return f'{where}: sequence {i}: iteration, integer indexing, len() or total_nb_rows disagree'
    return None


def check_write(W, target, written, obs, before, where):
    """A write through `target`: it shows the new values; another sequence sees the new value of
    ALL the elements it shares with the target when linked, of NONE when not, never of some."""
    S = W.live[target]
    for it in S.items:
        if it[0] in written:
            it[1] = [list(r) for r in written[it[0]]]
    for i, R in enumerate(W.live):
        if R is S:
            continue
        got = obs[i][0]
        if len(got) != len(R.items):
            return f'{where}: sequence {i} changed length'
        rel = W.relation(R.grp, S.grp)
        n_new = n_old = 0
        for pos, (ident, old) in enumerate(R.items):
            g = got[pos]
            if ident in written and rel != 'different':
                new = written[ident]
                if new == old:
                    if g != old:
                        return f'{where}: sequence {i}[{pos}] is {g}, expected {old}'
                elif g == new:
                    n_new += 1
                elif g == old:
                    n_old += 1
                else:
                    return f'{where}: sequence {i}[{pos}] is {g}: neither the old nor the new value'
            elif g != old:
                return (f'{where}: sequence {i}[{pos}] is {g}, expected {old} '
                        f'(element not shared with the sequence written through)')
        if n_new and n_old:
            return (f'{where}: the write reached only {n_new} of the {n_new + n_old} elements sequence '
                    f'{target} shares with sequence {i}: {got}')
        if rel == 'same' and n_old:
            return (f'{where}: the write through sequence {target} did not reach the elements it shares '
                    f'with linked sequence {i}: {got}')
        if n_new:
            for it in R.items:
                if it[0] in written:
                    it[1] = [list(r) for r in written[it[0]]]
            if rel == 'maybe':
                W.merge(R.grp, S.grp)
        elif n_old and rel == 'maybe':
            W.cut(R.grp, S.grp)
    return None


# ------------------------------------------------------------------ Tractogram stream (oracle only)

def impl_tract(case):
    from nibabel.streamlines.tractogram import Tractogram
    d = case.data
    n, idx, how = d['n'], d['idx'], d['how']
    sls, val = [], 1
    for i in range(n):
        rows = 1 + (i * 2) % 3
        sls.append((np.arange(rows * 3) + val).reshape(rows, 3).astype('f4'))
        val += rows * 3 + 1
    fa = [a[:, :1] * 10 for a in sls]
    mean = np.arange(n, dtype='f4').reshape(n, 1)
    if d.get('spare'):
        from nibabel.streamlines.array_sequence import ArraySequence
        s0, f0 = ArraySequence(), ArraySequence()
        for a, b in zip(sls, fa):
            s0.append(a)
            f0.append(b)
        t = Tractogram(s0, data_per_streamline={'m': mean}, data_per_point={'fa': f0})
    else:
        t = Tractogram(sls, data_per_streamline={'m': mean}, data_per_point={'fa': fa})
    index = slice(*idx) if isinstance(idx, list) and len(idx) == 3 and d.get('slice') else idx
    part = t[index]
    pos = list(range(n))[index] if isinstance(index, slice) else [i % n for i in index]
    other = t[n - 1:].copy()
    if how == 'extend':
        part.extend(other)
    elif how == 'iadd':
        part += other
    elif how == 'add':
        part = part + other
    else:
        part.streamlines.append(sls[n - 1])
        part.data_per_point['fa'].append(fa[n - 1])
    f = lambda seq, w: [rows_of(a, w) for a in seq]
    case.extra = {
        'parent': (f(t.streamlines, 3), f(t.data_per_point['fa'], 1), rows_of(t.data_per_streamline['m'], 1)),
        'parent_want': ([rows_of(a, 3) for a in sls], [rows_of(a, 1) for a in fa], rows_of(mean, 1)),
        'part': (f(part.streamlines, 3), f(part.data_per_point['fa'], 1)),
        'part_want': ([rows_of(sls[p], 3) for p in pos] + [rows_of(sls[n - 1], 3)],
                      [rows_of(fa[p], 1) for p in pos] + [rows_of(fa[n - 1], 1)]),
    }
    return 'ok'


def oracle_tract(case, out):
    if out != 'ok':
        return f'Tractogram slice/grow raised {out}: {case.data}'
    e = case.extra
    if e['parent'] != e['parent_want']:
        return f'growing a derived tractogram altered the tractogram it was taken from: {case.data}: {e["parent"]}'
    if e['part'] != e['part_want']:
        return f'derived tractogram after growth is {e["part"]}, expected {e["part_want"]}: {case.data}'
    return None


# ------------------------------------------------------------------ signature / shrinking

def signature(case, what):
    d = case.data
    if d['kind'] == 'tract':
        return 'tractogram:derived-growth'
    import re
    m = re.match(r"step (\d+) ", what or '')
    if not m:
        return 'arrayseq:other'
    n = int(m.group(1))
    op = d['ops'][n]
    if op[0] in ('iop', 'iopf', 'op', 'iops', 'ops', 'un') and 'StopIteration' in what:
        return 'arrayseq:arith-on-empty-sequence:StopIteration'
    rule = ('partial-write' if 'reached only' in what else
            'write-not-reaching-linked' if 'did not reach' in what else
            'other-sequence-changed' if 'not the one operated on' in what or 'not shared' in what else
            'status' if 'implementation gave' in what else 'contents')
    return f'arrayseq:{op[0]}:{rule}'


def shrink_candidates(case):
    d = case.data
    if d['kind'] != 'hist':
        return
    ops = d['ops']
    shape = tuple(d['shape'])
    for n in range(len(ops) - 1, 0, -1):            # truncate
        yield mk_hist(shape, ops[:n], 'shrunk')
        if len(ops) - n > 6:
            break
    for i in range(len(ops)):                       # drop one op that creates no sequence
        if ops[i][0] not in CREATE and ops[i][0] not in TRACT:
            yield mk_hist(shape, ops[:i] + ops[i + 1:], 'shrunk')
    if any(o[0] in TRACT for o in ops):             # tractogram operations create several sequences: keep the numbering
        return
    for i in range(len(ops)):                       # drop a creator nobody refers to later
        if ops[i][0] in CREATE:
            sid = sum(1 for o in ops[:i] if o[0] in CREATE)
            rest = ops[i + 1:]
            used = any(sid in ([o[1]] if o[0] not in ('new', 'cat') else o[1] if o[0] == 'cat' else []) or
                       (o[0] in TWO_SEQ and o[2] == sid) for o in rest)
            if used:
                continue

            def ren(o):
                o = list(o)
                if o[0] == 'cat':
                    o[1] = [t - 1 if t > sid else t for t in o[1]]
                elif o[0] != 'new':
                    o[1] = o[1] - 1 if o[1] > sid else o[1]
                    if o[0] in TWO_SEQ:
                        o[2] = o[2] - 1 if o[2] > sid else o[2]
                return o
            yield mk_hist(shape, ops[:i] + [ren(o) for o in rest], 'shrunk')


# ------------------------------------------------------------------ generators

class Fresh:
    """fresh integer-valued arrays: every generated row holds values not used before"""

    def __init__(self, w, start=1):
        self.w, self.v = w, start

    def rows(self, n):
        out = [[self.v + i * self.w + j for j in range(self.w)] for i in range(n)]
        self.v += n * self.w + 1
        return out


class Sim:
    """cheap bookkeeping of a history while generating it: element row counts of each live sequence"""

    def __init__(self):
        self.lens = []      # per live sequence: list of element row counts
        self.bools = set()  # live sequences holding NumPy bool (comparison results and what derives from them)
        self.odd = set()    # right operands made with ANOTHER dtype than the history's (and what derives from them)

    def clone(self):
        c = Sim()
        c.lens = [list(x) for x in self.lens]
        c.bools = set(self.bools)
        c.odd = set(self.odd)
        return c

    def partners(self, t):
        """live non-bool sequences whose elements have the same row counts as those of t"""
        return [u for u in range(len(self.lens)) if self.lens[u] == self.lens[t] and u not in self.bools
                and u not in self.odd]

    def apply(self, op):
        k = op[0]
        L = self.lens
        n0 = len(L)
        self._apply(op)
        if len(L) > n0 and ((k == 'ops' and op[3] == 3) or
                            (k in ('view', 'copy', 'sl', 'idx', 'mask', 'idxa', 'idxr') and op[1] in self.bools)):
            self.bools.add(n0)
        if len(L) > n0 and k in ('view', 'copy', 'sl', 'idx', 'mask', 'idxa', 'idxr', 'op', 'un') and op[1] in self.odd:
            self.odd.add(n0)
        if len(L) > n0 and k == 'cat' and op[1] and op[1][0] in self.odd:
            self.odd.add(n0)

    def _apply(self, op):
        k = op[0]
        L = self.lens
        if k == 'new':
            L.append([])
        elif k in ('app', 'appc'):
            if op[3]:
                L[op[1]].append(len(op[3]))
        elif k in ('ext', 'extg'):
            L[op[1]].extend(len(e) for e in op[3] if e)
        elif k == 'exts':
            L[op[1]].extend(list(L[op[2]]))
        elif k in ('view', 'copy', 'op', 'un'):
            if k in ('op', 'un') and not L[op[1]]:
                return
            L.append(list(L[op[1]]))
        elif k == 'ops':
            if L[op[1]] and L[op[1]] == L[op[2]]:
                L.append(list(L[op[1]]))
        elif k in ('sl', 'idx', 'mask', 'idxa', 'idxr'):
            pos = ref_positions(len(L[op[1]]), op)
            if not isinstance(pos, str):
                L.append([L[op[1]][p] for p in pos])
        elif k == 'cat':
            L.append([x for t in op[1] for x in L[t]])


def start_states(fr, dt):
    """(name, shape-independent op prefix builder) — start states of the exhaustive streams"""
    def s_ctor():           # compact, no spare capacity; multi-, single-row and a zero-row element
        return [['new', 0], ['ext', 0, dt, [fr.rows(2), fr.rows(1), [], fr.rows(3)]]]

    def s_spare():          # one-shot appends leave spare capacity in the 4 Mb buffer
        return [['new', 0], ['app', 0, dt, fr.rows(2)], ['app', 0, dt, fr.rows(1)], ['app', 0, dt, fr.rows(2)]]

    def s_small():          # tiny buffer: reallocation on nearly every growth
        return [['new', 2 * 8 * fr.w], ['app', 0, dt, fr.rows(1)], ['app', 0, dt, fr.rows(2)],
                ['appc', 0, dt, fr.rows(1)]]

    def s_view():           # parent with spare capacity + a slice view of it
        return s_spare() + [['sl', 0, None, 2, None]]

    def s_viewview():       # parent, reversed view, view of the view
        return s_ctor() + [['sl', 0, None, None, -1], ['sl', 1, 1, None, None]]

    def s_empty():          # built only from zero-row elements
        return [['new', 0], ['ext', 0, dt, [[], []]]]

    def s_single():
        return [['new', 0], ['app', 0, dt, fr.rows(1)]]

    return [('ctor', s_ctor), ('spare', s_spare), ('small', s_small), ('view', s_view),
            ('viewview', s_viewview), ('empty', s_empty), ('single', s_single)]


def alphabet(sim, fr, dt, level):
    """operations offered at the current state; `level` 0 = core, 1 = full, 2 = full + assignment of an
    ArraySequence / of arrays through a list index"""
    L = sim.lens
    n = len(L)
    targets = list(range(n))[-3:] if n > 3 else list(range(n))
    if 0 not in targets and n:
        targets = [0] + targets[1:]
    ops = []
    B = sim.bools
    for t in targets:
        m = len(L[t])
        if t in B:                      # a comparison result (bool data): only looked at, sliced, copied
            if n < 5:
                ops.append(lambda t=t: ['sl', t, 1, None, None])
                ops.append(lambda t=t: ['copy', t])
            continue
        ops.append(lambda t=t: ['app', t, dt, fr.rows(2)])
        ops.append(lambda t=t: ['ext', t, dt, [fr.rows(1), [], fr.rows(2)]])
        if n < 5:
            ops.append(lambda t=t: ['sl', t, None, 2, None])
            ops.append(lambda t=t: ['sl', t, 1, None, None])
        if m:
            ops.append(lambda t=t, m=m: ['set', t, 0, fr.rows(L[t][0])])
            ops.append(lambda t=t: ['iop', t, 0, 100])
        if level >= 1:
            ops.append(lambda t=t: ['appc', t, dt, fr.rows(1)])
            ops.append(lambda t=t: ['extg', t, dt, [[], fr.rows(2), fr.rows(1)]])
            ops.append(lambda t=t: ['app', t, dt, []])
            if n < 5:
                ops.append(lambda t=t: ['copy', t])
                ops.append(lambda t=t: ['view', t, 0])
                ops.append(lambda t=t: ['sl', t, None, None, -2])
                if m:
                    ops.append(lambda t=t, m=m: ['idx', t, [m - 1, 0, 0][:max(2, m)]])
                    ops.append(lambda t=t, m=m: ['mask', t, [1] + [0] * (m - 1)])
                    ops.append(lambda t=t: ['op', t, 1, 2])
            if m:
                ops.append(lambda t=t, m=m: ['set', t, -1, fr.rows(L[t][-1])])
                ops.append(lambda t=t, m=m: ['sets', t, None, None, 2,
                                             [fr.rows(x) for x in L[t][::2]]])
                ops.append(lambda t=t: ['iop', t, 1, 2])
                ops.append(lambda t=t: ['iopf', t, 0, 2])      # a Python float: refused on integer data
                # slice assignment from an ArraySequence (a partner of equal element lengths, else itself) and
                # list-index assignment of arrays in reversed order
                if level >= 2:
                    ops.append(lambda t=t: ['setv', t, ['s', None, None, None],
                                            ([u for u in sim.partners(t) if u != t] or [t])[-1]])
                    ops.append(lambda t=t, m=m: ['setl', t, ['f', list(range(m - 1, -1, -1))],
                                                 [fr.rows(x) for x in L[t][::-1]]])
                # operators with an ArraySequence operand of matching element lengths (another live
                # sequence when there is one, else the sequence itself) and a unary operator
                others = [u for u in sim.partners(t) if u != t]
                u = others[-1] if others else t
                ops.append(lambda t=t, u=u: ['iops', t, u, 0])
                if n < 5:
                    ops.append(lambda t=t, u=u: ['ops', t, u, 2])
                    ops.append(lambda t=t, u=u: ['ops', t, u, 3])
                    ops.append(lambda t=t: ['un', t, 0])
            if n >= 2:
                u = targets[0] if t != targets[0] else targets[-1]
                if u not in B:
                    ops.append(lambda t=t, u=u: ['exts', t, u])
                    if n < 5:
                        ops.append(lambda t=t, u=u: ['cat', [t, u]])
    return ops


def enumerate_histories(shape, dt, depth, level, starts, out, stream, limit=None):
    w = width(shape)
    for name in starts:
        def rec(prefix, sim, v, d):
            if d == 0:
                out.append(mk_hist(shape, prefix, stream))
                return
            fr = Fresh(w, v)
            makers = alphabet(sim, fr, dt, level)
            for mk in makers:
                fr.v = v
                op = mk()
                s2 = sim.clone()
                s2.apply(op)
                rec(prefix + [op], s2, fr.v, d - 1)
        fr0 = Fresh(w)
        prefix = dict(start_states(fr0, dt))[name]()
        sim = Sim()
        for op in prefix:
            sim.apply(op)
        rec(prefix, sim, fr0.v, depth)


def perm_fix_ends(rng, m):
    """a permutation of range(m) that keeps 0 and m-1 in place and (when m >= 4) moves the elements between"""
    inner = list(range(1, m - 1))
    if len(inner) >= 2:
        while True:
            sh = inner[:]
            rng.shuffle(sh)
            if sh != inner:
                break
        inner = sh
    return ([0] if m else []) + inner + ([m - 1] if m > 1 else [])


def rand_index(rng, m):
    """a random index form for a sequence of m arrays (mostly valid)"""
    q = rng.random()
    if q < 0.25:
        b = [None] + list(range(-m - 1, m + 2))
        return ['s', rng.choice(b), rng.choice(b), rng.choice([None, None, 1, 2, -1, -2, 3])]
    if q < 0.45:
        return [rng.choice(['f', 'a']), perm_fix_ends(rng, m)]
    if q < 0.7:
        hi = m + (1 if rng.random() < 0.08 else 0)
        return [rng.choice(['f', 'a']), [rng.randrange(-m, hi) for _ in range(rng.randrange(0, m + 2))]]
    if q < 0.8:
        a, c = rng.randrange(m), rng.choice([1, 2, -1])
        return ['r', a, rng.randrange(a, m + 1) if c > 0 else rng.randrange(-1, a + 1), c]
    return [rng.choice(['m', 'm', 'ml']), [rng.randrange(2) for _ in range(m + (1 if rng.random() < 0.06 else 0))]]


def random_history(rng, nsteps):
    shape = rng.choice(SHAPES)
    w = width(shape)
    mixed = rng.random() < 0.2
    dt0 = rng.choice([0, 1, 1, 2, 3, 4])
    fr = Fresh(w)
    sim = Sim()
    ops = []
    muls = 0

    def dt():
        return rng.choice([0, 1, 2, 4]) if mixed and dt0 != 3 else dt0

    def elem(allow_empty=True):
        return fr.rows(rng.choice([0, 1, 1, 2, 3]) if allow_empty else rng.choice([1, 1, 2, 3]))

    def add(op):
        ops.append(op)
        sim.apply(op)

    def buf():
        return rng.choice([0, 0, 8 * w, 16 * w, 24 * w, 40 * w, 7, 100])

    def rslice(n):
        b = [None] + list(range(-n - 1, n + 2))
        return [rng.choice(b), rng.choice(b), rng.choice([None, None, 1, 2, -1, -2, 3, -3])]

    add(['new', buf()])
    if rng.random() < 0.7:
        add([rng.choice(['ext', 'ext', 'extg']), 0, dt0, [elem() for _ in range(rng.randrange(0, 5))]])
    seqadds = 0
    while len(ops) < nsteps:
        L = sim.lens
        n = len(L)
        t = rng.randrange(n)
        m = len(L[t])
        can_create = n < 7
        r = rng.random()
        if t in sim.bools:
            # bool data (comparison result): only looked at / sliced / copied, never written or grown
            if not can_create:
                add(['get', t, rng.randrange(-m - 1, m + 1)])
            elif r < 0.5:
                add(['sl', t] + rslice(m))
            elif r < 0.7:
                add(['copy', t])
            elif r < 0.85:
                add(['mask', t, [rng.randrange(2) for _ in range(m)]])
            else:
                add(['view', t, buf()])
            continue
        if rng.random() < 0.12 and m and not mixed and t not in sim.odd:
            # operators with an ArraySequence operand / unary operators
            kind = rng.choice(['iops', 'iops', 'ops', 'ops', 'ops', 'un', 'bad'])
            if kind == 'un':
                if can_create:
                    add(['un', t, rng.randrange(2)])
                continue
            if kind == 'bad':                       # _check_shape refuses: ValueError, nothing changes
                cand = [u for u in range(n) if u not in sim.bools and
                        (len(L[u]) != m or sum(L[u]) != sum(L[t]))]
                if cand:
                    add([rng.choice(['iops', 'ops']), t, rng.choice(cand), rng.choice([0, 2])])
                continue
            if kind == 'ops' and not can_create:
                continue
            if seqadds >= (3 if dt0 == 3 else 8):
                continue
            if rng.random() < 0.35 and n < 6 and sum(L[t]) < 40:     # a fresh right operand
                dtx = dt0
                if kind == 'iops' and rng.random() < 0.5:            # … of another dtype: NumPy may refuse
                    dtx = rng.choice([d for d in (0, 1, 2, 4) if d != dt0])
                add(['new', buf()])
                add(['ext', n, dtx, [fr.rows(x) for x in L[t]]])
                if dtx != dt0:
                    sim.odd.add(n)
                u = n
            else:
                u = rng.choice(sim.partners(t))
            codes = [0, 2] if kind == 'iops' else [0, 2, 3, 3]
            if muls == 0 and dt0 in (0, 1) and rng.random() < 0.15:
                codes, muls = [1], 99
            seqadds += 1
            add([kind, t, u, rng.choice(codes)])
            continue
        if m and rng.random() < 0.09 and t not in sim.odd:
            # assignment through any index form, of arrays / a number / another ArraySequence (fresh, an existing
            # sequence of matching element lengths — maybe a view of the same buffer —, or a permuting view)
            idx = rand_index(rng, m)
            pos = idx_positions(m, idx)
            if isinstance(pos, str):
                add(['setk', t, idx, 5])
                continue
            sel = [L[t][p] for p in pos]
            q = rng.random()
            if q < 0.2:
                add(['setl', t, idx, [fr.rows(x) for x in sel]])
            elif q < 0.3:
                add(['setk', t, idx, rng.choice([0, 7, -2])])
            else:
                cand = [u for u in range(n) if L[u] == sel and u not in sim.bools]
                if q < 0.4:                                  # refused: another number of arrays / of rows
                    bad = [u for u in range(n) if u not in sim.bools and
                           (len(L[u]) != len(sel) or sum(L[u]) != sum(sel))]
                    if bad:
                        add(['setv', t, idx, rng.choice(bad)])
                elif cand and q < 0.7:
                    add(['setv', t, idx, rng.choice(cand)])
                elif n < 6 and sum(sel) < 40:
                    perm = perm_fix_ends(rng, len(sel))
                    inv = [0] * len(sel)
                    for j, pj in enumerate(perm):
                        inv[pj] = j
                    add(['new', buf()])
                    if rng.random() < 0.5 or not sel:
                        add(['ext', n, dt0, [fr.rows(x) for x in sel]])
                        add(['setv', t, idx, n])
                    else:                                    # Y[perm] has the element lengths wanted
                        add(['ext', n, dt0, [fr.rows(sel[inv[j]]) for j in range(len(sel))]])
                        add([rng.choice(['idx', 'idxa']), n, perm])
                        add(['setv', t, idx, n + 1])
            continue
        if r < 0.13:
            add(['app', t, dt(), elem()])
        elif r < 0.18:
            add(['appc', t, dt(), elem()])
        elif r < 0.27:
            add([rng.choice(['ext', 'extg']), t, dt(), [elem() for _ in range(rng.randrange(0, 4))]])
        elif r < 0.31:
            u = rng.randrange(n)
            if sum(len(x) for x in L) < 400 and u not in sim.bools:
                add(['exts', t, u])
        elif r < 0.45 and can_create:
            add(['sl', t] + rslice(m))
        elif r < 0.50 and can_create:
            q = rng.random()
            if q < 0.12:
                add(['idx', t, [rng.randrange(-m - 2, m + 2) for _ in range(rng.randrange(1, 4))]])
            elif q < 0.3 and m:                       # a permutation that keeps the first and last element
                add([rng.choice(['idx', 'idxa']), t, perm_fix_ends(rng, m)])
            elif q < 0.4 and m:
                a, c = rng.randrange(m), rng.choice([1, 2, -1])
                add(['idxr', t, a, rng.randrange(a, m + 1) if c > 0 else rng.randrange(-1, a + 1), c])
            else:
                add([rng.choice(['idx', 'idx', 'idxa']), t,
                     [rng.randrange(-m, m) for _ in range(rng.randrange(0, m + 2))] if m else []])
        elif r < 0.54 and can_create:
            if rng.random() < 0.1:
                add(['mask', t, [rng.randrange(2) for _ in range(m + 1)]])
            else:
                add(['mask', t, [rng.randrange(2) for _ in range(m)]])
        elif r < 0.58 and can_create:
            add(['view', t, buf()])
        elif r < 0.63 and can_create:
            add(['copy', t])
        elif r < 0.66:
            add(['get', t, rng.randrange(-m - 1, m + 1)])
        elif r < 0.76:
            if m and rng.random() < 0.93:
                i = rng.randrange(-m, m)
                add(['set', t, i, fr.rows(L[t][i])])
            else:
                add(['set', t, rng.choice([m, -m - 1, m + 3]), fr.rows(1)])
        elif r < 0.83:
            sl = rslice(m)
            if sl[2] == 0:
                continue
            pos = list(range(m))[slice(*sl)]
            add(['sets', t] + sl + [[fr.rows(L[t][p]) for p in pos]])
        elif r < 0.92:
            if not m:
                continue
            code = rng.choice([0, 0, 2, 1])
            if code == 1:
                if muls >= 6 or (dt0 in (3,)) or mixed:
                    code = 0
                else:
                    muls += 1
            k = rng.choice([2, 3, -1]) if code == 1 else rng.choice([1, 7, 10, -3])
            add(['iopf' if rng.random() < 0.25 else 'iop', t, code, k])
        elif r < 0.96 and can_create:
            if not m:
                continue
            code = rng.choice([0, 2, 1])
            if code == 1:
                if muls >= 6 or dt0 == 3 or mixed:
                    code = 0
                else:
                    muls += 1
            add(['op', t, code, rng.choice([2, 3, -1]) if code == 1 else rng.choice([1, 5, -4])])
        elif can_create and sum(len(x) for x in L) < 400:
            ts = [rng.randrange(n) for _ in range(rng.randrange(1, 4))]
            if not any(u in sim.bools for u in ts):
                add(['cat', ts])
        elif can_create and rng.random() < 0.3:
            add(['new', buf()])
    return mk_hist(shape, ops, 'random')


# ------------------------------------------------------------------ Tractogram histories (model + oracle)

def ref_lens(W, i):
    return [len(v) for v in W.live[i].values()]


def tract_prefix(fr, dt, aslist):
    """two tractograms a (T0), b (T1) with per-point data under key 0 and an empty accumulator (T2);
    user-held sequences 0..3, a = sequences 4,5, b = 6,7, acc = 8"""
    la, lb = [2, 1], [1, 3]
    return [['new', 0], ['ext', 0, dt, [fr.rows(n) for n in la]],
            ['new', 0], ['ext', 1, dt, [fr.rows(n) for n in la]],
            ['new', 0], ['ext', 2, dt, [fr.rows(n) for n in lb]],
            ['new', 0], ['ext', 3, dt, [fr.rows(n) for n in lb]],
            ['tnew', 0, [[0, 1]], aslist], ['tnew', 2, [[0, 3]], aslist], ['tnew', None, [], 0]]


def tract_alphabet(W, fr, dt):
    """operations offered at the current state of a tractogram history (None = not applicable)"""
    T = W.tracts
    last = len(T) - 1

    def member(t, key=0):
        return T[t]['dpp'].get(key)

    def on_member(t, f):
        m = member(t)
        return None if m is None else f(m)

    return [
        lambda: ['text', 2, 0],                                    # acc += a
        lambda: ['text', 2, 1],                                    # acc += b
        lambda: ['text', 0, 1],                                    # a += b
        lambda: ['text', last, 1] if last > 2 else ['text', 1, 1],   # (derived tractogram) += b ; b += b
        lambda: ['tsl', 0, None, 1, None],                         # a[:1]
        lambda: ['tsl', 2, 1, None, None] if last <= 3 else ['tidx', last, [0, 0]],
        lambda: ['tset', 0, 1, 1, 0],                              # a.data_per_point[k1] = user sequence
        lambda: ['tset', 2, 0, 3, 0],                              # acc.data_per_point[k0] = user sequence
        lambda: on_member(2, lambda m: ['app', m, dt, fr.rows(1)]) or ['app', T[2]['sl'], dt, fr.rows(1)],
        lambda: on_member(0, lambda m: ['iop', m, 0, 100]),
        lambda: on_member(2, lambda m: ['set', m, 0, fr.rows(ref_lens(W, m)[0])] if ref_lens(W, m) else None),
        lambda: ['tnew', T[0]['sl'], [[0, member(0)]], 0] if member(0) is not None else None,
        # binary operations with EMPTY and non-empty operands in both positions, copies, then writes through the
        # RESULT (the newest tractogram): every other live object must stay as it is
        lambda: ['tadd', 0, 2],                                    # a + acc   (acc is empty at first)
        lambda: ['tadd', 2, 0],                                    # acc + a
        lambda: ['tadd', 0, last] if last > 2 else ['tadd', 0, 1],    # a + (newest) ; a + b
        lambda: ['tcopy', last],
        lambda: ['tsl', 0, None, 0, None] if last <= 3 else ['tmask', 0, [0] * len(ref_lens(W, T[0]['sl']))],  # a[:0]
        lambda: (lambda m: ['set', m, 0, fr.rows(ref_lens(W, m)[0])] if ref_lens(W, m) else
                 ['app', m, dt, fr.rows(1)])(T[last]['sl']),
        lambda: on_member(last, lambda m: ['iop', m, 0, 1000] if ref_lens(W, m) else None) or
        ['setk', T[last]['sl'], ['s', None, None, None], 9],
    ]


N_TRACT_ALPHA = 19


def replay_ref(ops, w):
    W = RefWorld()
    for op in ops:
        ref_step(W, op, w)
    return W


def enumerate_tract_histories(shape, dt, depth, out, stream, choices=None):
    """every path (or the given ones) of `depth` operations of `tract_alphabet` from both start states"""
    w = width(shape)
    for aslist in (0, 1):
        fr0 = Fresh(w)
        prefix = tract_prefix(fr0, dt, aslist)
        nalpha = N_TRACT_ALPHA
        paths = choices if choices is not None else itertools.product(range(nalpha), repeat=depth)
        for path in paths:
            fr = Fresh(w, fr0.v)
            W = replay_ref(prefix, w)
            ops = list(prefix)
            for c in path:
                op = tract_alphabet(W, fr, dt)[c % nalpha]()
                if op is None:
                    continue
                try:
                    ref_step(W, op, w)
                except Invalid:
                    continue
                ops.append(op)
            out.append(mk_hist(shape, ops, stream))


def random_tract_history(rng, nsteps):
    shape = rng.choice(SHAPES)
    w = width(shape)
    dt0 = rng.choice([0, 1, 2, 4])
    fr = Fresh(w)
    W = RefWorld()
    ops = []

    def add(op):
        try:
            ref_step(W, op, w)
        except Invalid:
            return False
        ops.append(op)
        return True

    def buf():
        return rng.choice([0, 0, 0, 8 * w, 24 * w, 100])

    for _ in range(rng.choice([1, 2, 2, 3])):            # groups of user-held sequences with equal element lengths
        lens = [rng.choice([1, 1, 2, 3]) for _ in range(rng.randrange(0, 4))]
        for _ in range(rng.choice([2, 2, 3])):
            i = len(W.live)
            add(['new', buf()])
            if rng.random() < 0.5:
                add(['ext', i, dt0, [fr.rows(n) for n in lens]])
            else:
                for n in lens:
                    add(['app', i, dt0, fr.rows(n)])
    tries = 0
    while len(ops) < nsteps and tries < 8 * nsteps:
        tries += 1
        n, nt = len(W.live), len(W.tracts)
        r = rng.random()
        room = n < 16
        if r < 0.16 and room and nt < 6:
            src = None if rng.random() < 0.3 else rng.randrange(n)
            want = ref_lens(W, src) if src is not None else None
            cand = [u for u in range(n) if want is None or ref_lens(W, u) == want]
            if rng.random() < 0.1:
                cand = list(range(n))
            keys = rng.sample([0, 1, 2], rng.choice([0, 1, 1, 2]))
            add(['tnew', src, [[a, rng.choice(cand)] for a in keys], int(rng.random() < 0.3)])
        elif r < 0.30 and room and nt and nt < 7:
            T = rng.randrange(nt)
            m = len(W.live[W.tracts[T]['sl']].items)
            if rng.random() < 0.6:
                b = [None] + list(range(-m - 1, m + 2))
                add(['tsl', T, rng.choice(b), rng.choice(b), rng.choice([None, None, 1, 2, -1, -2])])
            elif m:
                add(['tidx', T, [rng.randrange(-m, m + (rng.random() < 0.08)) for _ in range(rng.randrange(0, m + 2))]])
        elif r < 0.36 and room and nt and nt < 7:
            T, U = rng.randrange(nt), rng.randrange(nt)
            q = rng.random()
            if q < 0.25:
                add(['tcopy', T])
            elif q < 0.4:
                m = len(W.live[W.tracts[T]['sl']].items)
                add(['tmask', T, [rng.randrange(2) if rng.random() < 0.7 else 0 for _ in range(m)]])
            elif sum(len(x.items) for x in W.live) < 300:
                add(['tadd', T, U])
                if len(W.tracts) > nt and rng.random() < 0.7:      # write through the result straight away
                    X = W.tracts[-1]
                    t = rng.choice([X['sl']] + list(X['dpp'].values()))
                    lens = ref_lens(W, t)
                    if lens and rng.random() < 0.5:
                        i = rng.randrange(len(lens))
                        add(['set', t, i, fr.rows(lens[i])])
                    elif lens:
                        add(['iop', t, 0, rng.choice([1000, -7])])
        elif r < 0.55 and nt:
            T = rng.randrange(nt)
            U = rng.randrange(nt)
            if sum(len(x.items) for x in W.live) < 300:
                add(['text', T, U])
        elif r < 0.65 and nt and room:
            T = rng.randrange(nt)
            rows = W.tracts[T]['n']
            cand = [u for u in range(n) if ref_rows(W.live[u]) == rows] if rng.random() < 0.85 else list(range(n))
            if cand:
                add(['tset', T, rng.choice([0, 0, 1, 2]), rng.choice(cand), int(rng.random() < 0.3)])
        else:
            members = [x for T in W.tracts for x in [T['sl']] + list(T['dpp'].values())]
            t = rng.choice(members) if members and rng.random() < 0.7 else rng.randrange(n)
            lens = ref_lens(W, t)
            m = len(lens)
            q = rng.random()
            if q < 0.25:
                add(['app', t, dt0, fr.rows(rng.choice([0, 1, 2]))])
            elif q < 0.40:
                add([rng.choice(['ext', 'extg']), t, dt0, [fr.rows(rng.choice([0, 1, 2])) for _ in range(rng.randrange(0, 3))]])
            elif q < 0.50:
                u = rng.randrange(n)
                if sum(len(x.items) for x in W.live) < 300:
                    add(['exts', t, u])
            elif q < 0.62 and m:
                add(['iop', t, rng.choice([0, 2]), rng.choice([1, 7, -3])])
            elif q < 0.74 and m:
                i = rng.randrange(-m, m)
                add(['set', t, i, fr.rows(lens[i])])
            elif q < 0.84 and room:
                b = [None] + list(range(-m - 1, m + 2))
                add(['sl', t, rng.choice(b), rng.choice(b), rng.choice([None, 1, -1, 2])])
            elif q < 0.90 and room:
                add(['copy', t])
            elif q < 0.95 and room:
                add(['view', t, buf()])
            else:
                add(['get', t, rng.randrange(-m - 1, m + 1)])
    return mk_hist(shape, ops, 'tract-random')


def fancy_full_cases(out):
    """views made with REPEATED indices whose selected rows add up to exactly the rows of the parent's
    buffer (so `is_sliced_view` is False for them), then written through / grown"""
    for shape, dt in (((2,), 1), ((), 4)):
        w = width(shape)
        for lens, idx in (([2, 1, 3], [0, 0, 0]), ([2, 1, 3], [2, 2]), ([2, 1, 3], [1, 1, 0, 0]),
                          ([1, 1], [1, 1]), ([2, 2], [0, 0]), ([3, 1, 2], [2, 1, 0])):
            for tail in range(7):
                fr = Fresh(w)
                ops = [['new', 0], ['ext', 0, dt, [fr.rows(n) for n in lens]], ['idx', 0, idx]]
                sel = [lens[i] for i in idx]
                ops += [[['iop', 1, 0, 100]], [['iop', 1, 1, 2]], [['op', 1, 0, 5]],
                        [['set', 1, 0, fr.rows(sel[0])]], [['app', 1, dt, fr.rows(2)], ['iop', 1, 0, 100]],
                        [['copy', 1], ['iops', 1, 2, 0]], [['sl', 1, None, None, -1], ['iop', 2, 2, 7]]][tail]
                ops.append(['get', 0, -1])
                out.append(mk_hist(shape, ops, 'fancy-full'))


def setitem_form_cases(out, rng, per_combo=1):
    """SYSTEMATIC: `target[IDX] = value` for every index form on the target side x every kind of value, on
    sequences with unequal and with equal element lengths; the target is an owner, a full slice view of it or a
    reversed view; the value is a list of arrays, a number, a fresh ArraySequence, a permuting list-index view of
    a fresh sequence (first and last element kept in place), a view of the target's OWN buffer (same positions —
    self assignment —, or other positions of equal element lengths) or a view of a copy."""
    combos = 0
    for li, lens in enumerate(([2, 1, 3, 2], [2, 2, 2, 2], [1, 1, 1, 1, 1], [3, 1, 2])):
        n = len(lens)
        forms = [['s', None, None, None], ['s', None, None, -1], ['s', 1, None, 2], ['s', None, -1, None],
                 ['f', list(range(n))], ['f', list(range(n - 1, -1, -1))], ['f', [0, 0, 2]], ['f', [-1, 0]],
                 ['a', [0] + list(range(n - 2, 0, -1)) + [n - 1]], ['f', [0] + list(range(n - 2, 0, -1)) + [n - 1]],
                 ['r', 0, n, 1], ['r', n - 1, 0, -1], ['r', n - 1, -1, -1], ['m', [1, 0] * (n // 2) + [1] * (n % 2)], ['ml', [1] * n],
                 ['m', [0] * n]]
        if n >= 5:
            forms.append(['f', [0, 2, 3, 1, 4]])
            forms.append(['a', [0, 3, 1, 2, 4]])
        for tk in range(3):
            for fi, idx in enumerate(forms):
                pos = idx_positions(n, idx)
                tpos = pos if tk < 2 else [n - 1 - p for p in pos]       # positions in the parent
                sel = [lens[p] for p in tpos]
                m = len(sel)
                for vk in range(8):
                    combos += 1
                    shape = SHAPES[(li + fi + vk) % len(SHAPES)]
                    dt = [1, 0, 4, 2][(li + tk + vk) % 4]
                    w = width(shape)
                    fr = Fresh(w)
                    ops = [['new', 0], ['ext', 0, dt, [fr.rows(x) for x in lens]]] if (fi + vk) % 2 else \
                          [['new', 0]] + [['app', 0, dt, fr.rows(x)] for x in lens]
                    nl = 1
                    t = 0
                    if tk == 1:
                        ops.append(['sl', 0, None, None, None]); t = nl; nl += 1
                    elif tk == 2:
                        ops.append(['sl', 0, None, None, -1]); t = nl; nl += 1
                    perm = [0] + list(range(m - 2, 0, -1)) + [m - 1] if m >= 2 else list(range(m))
                    if vk == 0:
                        ops.append(['setl', t, idx, [fr.rows(x) for x in sel]])
                    elif vk == 1:
                        ops.append(['setk', t, idx, 7])
                    elif vk == 2:                                       # a fresh ArraySequence
                        ops += [['new', 0], ['ext', nl, dt, [fr.rows(x) for x in sel]], ['setv', t, idx, nl]]
                    elif vk == 3:                                       # a permuting view of a fresh sequence
                        inv = [0] * m
                        for j, pj in enumerate(perm):
                            inv[pj] = j
                        ops += [['new', 0], ['ext', nl, dt, [fr.rows(sel[inv[j]]) for j in range(m)]],
                                [('idx', 'idxa')[fi % 2], nl, perm], ['setv', t, idx, nl + 1]]
                    elif vk == 4:                                       # the same positions of the same buffer
                        ops += [['idx', 0, tpos], ['setv', t, idx, nl]]
                    elif vk == 5:                                       # other positions of the same buffer
                        other = [tpos[j] for j in perm]
                        if [lens[p] for p in other] != sel:
                            other = tpos[::-1]
                            if [lens[p] for p in other] != sel:
                                continue
                        ops += [['idxa', 0, other], ['setv', t, idx, nl]]
                    elif vk == 6:                                       # a permuting view of a copy
                        other = [tpos[j] for j in perm]
                        if [lens[p] for p in other] != sel:
                            continue
                        ops += [['copy', 0], ['idx', nl, other], ['setv', t, idx, nl + 1]]
                    else:                                               # refused: one array too many / too few
                        ops += [['new', 0], ['ext', nl, dt, [fr.rows(x) for x in sel + [1]]], ['setv', t, idx, nl]]
                    ops.append(['get', 0, -1])
                    out.append(mk_hist(shape, ops, 'setitem-forms'))
    return combos


def tract_cases():
    out = []
    for n in (2, 4, 5):
        for idx, is_slice in ([[0, 1, None], True], [[None, None, 2], True], [[1, 2, None], True],
                              [[None, None, -1], True], [[0], False], [[n - 1, 0], False]):
            for how in ('extend', 'iadd', 'add', 'append'):
                for spare in (False, True):
                    out.append(case_from_data({'kind': 'tract', 'n': n, 'idx': idx, 'slice': is_slice,
                                               'how': how, 'spare': spare}))
    return out


def cases(rng, tier):
    out = []
    # ---- regression inputs of the three repaired defects and the pending finding are in corpus/C15
    # ---- exhaustive small histories
    all_starts = ['ctor', 'spare', 'small', 'view', 'viewview', 'empty', 'single']
    def sampled(shape, dt, depth, level, starts, stream, k):
        """k random root-to-leaf paths of the same tree `enumerate_histories` walks exhaustively"""
        w = width(shape)
        for i in range(k):
            fr = Fresh(w)
            prefix = dict(start_states(fr, dt))[starts[i % len(starts)]]()
            sim = Sim()
            for op in prefix:
                sim.apply(op)
            for _ in range(depth):
                op = rng.choice(alphabet(sim, fr, dt, level))()
                prefix.append(op)
                sim.apply(op)
            out.append(mk_hist(shape, prefix, stream))

    if tier == 'quick':
        enumerate_histories((3,), 1, 2, 2, all_starts, out, 'exh-d2-full')
        enumerate_histories((2,), 0, 3, 0, ['spare', 'small', 'view', 'viewview'], out, 'exh-d3-core')
        sampled((), 2, 3, 2, all_starts, 'sample-d3-full', 5000)
        sampled((2, 2), 4, 4, 2, ['view', 'viewview', 'small', 'spare'], 'sample-d4-full', 3000)
    elif tier == 'thorough':
        enumerate_histories((3,), 1, 2, 2, all_starts, out, 'exh-d2-full')
        enumerate_histories((2,), 0, 3, 0, all_starts, out, 'exh-d3-core')
        enumerate_histories((2, 2), 4, 3, 1, ['view'], out, 'exh-d3-full')
        enumerate_histories((2,), 0, 4, 0, ['view', 'small'], out, 'exh-d4-core')
        sampled((3,), 1, 3, 2, ['ctor', 'spare', 'small', 'viewview', 'empty', 'single'], 'sample-d3-full', 60000)
        sampled((), 2, 5, 2, ['view', 'viewview', 'small', 'spare'], 'sample-d5-full', 60000)
    else:
        enumerate_histories((3,), 1, 2, 2, all_starts, out, 'exh-d2-full')
        enumerate_histories((2,), 0, 3, 0, ['spare', 'small', 'view', 'viewview'], out, 'exh-d3-core')
    # ---- random long histories
    nrand = {'quick': 1500, 'thorough': 20000, 'search': 3000}[tier]
    for _ in range(nrand):
        out.append(random_history(rng, rng.choice([6, 10, 16, 25, 25])))
    out.extend(tract_cases())
    # ---- Tractogram histories (model + oracle): exhaustive short ones, random longer ones
    if tier == 'thorough':
        enumerate_tract_histories((3,), 4, 3, out, 'tract-exh-d3')
        enumerate_tract_histories((), 1, 4, out, 'tract-sample-d4',
                                  [[rng.randrange(N_TRACT_ALPHA) for _ in range(4)] for _ in range(6000)])
    else:
        enumerate_tract_histories((3,), 4, 2, out, 'tract-exh-d2')
        enumerate_tract_histories((), 1, 3, out, 'tract-sample-d3',
                                  [[rng.randrange(N_TRACT_ALPHA) for _ in range(3)] for _ in range(500)])
    for _ in range({'quick': 700, 'thorough': 8000, 'search': 1500}[tier]):
        out.append(random_tract_history(rng, rng.choice([6, 10, 14, 20])))
    fancy_full_cases(out)
    setitem_form_cases(out, rng)
    return out
