"""C20 — PAR/REC volumes are assembled by slice labels, not by record order (nibabel/parrec.py).

Synthetic PAR/REC pairs are written from a fixture header (general information rewritten, the slice
record table replaced by generated label fields and scale factors); slab i of the REC file is filled
with the payload id of record i.  The real loader, the Lean model (driver `nbd_c20`) and an
independent by-label reference are compared on every case.
"""
import atexit
import os
import shutil
import tempfile
from fractions import Fraction

import numpy as np

import common
import py2lean
import py2lean_c20
from common import Case, errname, REPO

PID = 'C20'
LEAN_TARGETS = ['NibabelModel.Props.C20']
THEOREMS = [
    'Nb.C20.strict_sort_perm_invariant',
    'Nb.C20.shape_perm_invariant',
    'Nb.C20.same_indices_everywhere',
    'Nb.C20.scaling_own_record',
    'Nb.C20.load_perm_invariant',
    'Nb.C20.partial_read_eq_whole',
    'Nb.C20.strict_truncated_orig_counterexample',
    'Nb.C20.full_flag_meaning',
    'Nb.C20.truncated_exactly_full_volumes',
    'Nb.C20.truncated_kept_iff',
    'Nb.C20.truncated_exactly_full_volumes_of_count',
    'Nb.C20.truncated_keeps_flagged_full',
    'Nb.C20.truncated_multi_partial_overcount_witness',
    'Nb.C20.lax_order_preserving',
    'Nb.C20.lax_identity_of_sorted_keys',
    'Nb.C20.loadSites_eq_load',
    'Nb.C20.call_sites_agree',
    'Nb.C20.header_copy_same_indices',
    'Nb.C20.copy_must_keep_strict_witness',
    'Nb.C20.fp_scaling_formula',
    'Nb.C20.fp_zero_scale_totalised_witness',
    'Nb.C20.scaled_value_own_record',
    'Nb.C20.vol_numbers_translated_eq_model',
    'Nb.C20.strictKey_from_source',
    'Nb.C20.diffusionKeys_from_source',
    'Nb.C20.dynamicKeys_from_source',
    'Nb.C20.sort_stage_keys_from_source',
    'Nb.C20.options_survive_header_chain',
    "Nb.C20.loadChain_eq_loadSites'",
    'Nb.C20.strict_sort_keys_translated_eq_model',
    'Nb.C20.sorted_indices_translated_eq_model',
    'Nb.C20.calc_data_shape_translated_eq_model',
    'Nb.C20.n_slices_translated_eq_model',
]
ASSUMPTIONS = [
    'hand-written Lean model of nibabel/parrec.py sorting/trimming/scaling/label logic (Model/C20.lean), tied '
    'to the code by the differential correspondence run on every case of this run; the driver runs the call-site '
    'model loadSites (index list recomputed by the proxy, by get_data_scaling on the header the proxy saw and on '
    'img.header = copy(), by get_volume_labels; columns gathered by position), proved equal to the one-list '
    'specification load',
    'vol_numbers is NOT hand-modelled only: it is translated from the working tree on every run '
    '(harness/py2lean.py -> Generated/C20Funcs.lean, semantics of the Python fragment = Basic/PyVal.lean, trusted '
    'and validated by the gen stream) and proved equal to the model; the lexsort key tuples, the field behind every '
    'key variable, dynamic_keys and the per-version field lists are read off the source with ast (text level: the '
    'if-nesting that chooses among the three diffusion_keys alternatives is modelled by hand)',
    'METHODS translated on every run by harness/py2lean_c20.py -> Generated/C20Methods.lean (self.x reads = value '
    'parameters, self.f(..) and np.lexsort = callable parameters, other NumPy/set operations = the primitives of '
    'Model/C20_Py.lean, trusted and validated by the genm stream): vol_is_full, get_def, _get_n_slices, _get_n_vols, '
    '_calc_data_shape, _lax_sort_order, get_sorted_slice_indices, the statements of _strict_sort_order up to '
    '`keys = ...`, get_volume_labels. PROVED equal to the model: the strict key list (incl. the diffusion_keys '
    'if-nesting and get_def), _calc_data_shape, get_sorted_slice_indices, _get_n_slices. Correspondence only (genm '
    'stream, composed in Model/C20_PyHdr.lean with np.lexsort := the stable sort): vol_is_full, _get_n_vols, '
    '_lax_sort_order, get_volume_labels; the second half of _strict_sort_order (2-D NumPy) is not translated',
    'headers handed on (copy(), from_header, PARRECImage(.., header=h).header) are modelled as the constructor call '
    'they make (Hdr.copy); options_survive_header_chain / loadChain_eq_loadSites are about that model, the chain '
    'stream ties it to the code',
    'np.lexsort is a STABLE sort by the lexicographic order of its keys (last key first); modelled as a '
    'stable insertion sort',
    'PAR text parsing, REC reading (array_from_file), fancy indexing rec_data[..., indices] and the F-order '
    'reshape are NumPy/nibabel behaviour observed through the per-slice payload identity; the gather by position '
    'is modelled (Model.gather), the byte level is not',
    'fp scale factors 1.0/SS and RI/(RS*SS) are exact rationals in the model (numeric theorems are stated under '
    'SS != 0 and RS != 0; the driver refuses fp inputs with a zero factor); the harness maps the float64 '
    'values of the implementation back to the unique small rational that rounds to them',
    'sliced reads: NumPy basic indexing / fileslice on the assembled array are taken from Basic/PySlice semantics on '
    'the slice and volume axes (in-plane axes only checked for range/emptiness); the element values of a sliced read '
    'are mapped back to slab identities with the public scale factors',
    'zooms/affine/dtype depend on the records only through n_slices/n_vols (modelled); the affine itself, '
    'get_bvals_bvecs, img.slicer, the way the pair is opened (PAR/REC name, lower-case extensions, from_file_map, '
    'nibabel.load) and the mmap mode are checked by the oracle only (bit-equal to the label-ordered file / to the '
    'by-label reference), not by the model',
]
RULE = ('data sets: versions V4/V4.1/V4.2 x 2-5 slices x up to 3 echoes x 3 dynamics x 2 cardiac phases x 2 image '
        'types x 2 ASL labels x diffusion (b values x gradient orientations); scale factors per record / per volume / '
        'per image type / UNIFORM slope with varying intercept (one RS+SS, one SS, one RS, one RI for the whole file); '
        'record orders canonical/reversed/slice-major/interleaved/volume-shuffled/random and the unsorted orders '
        'whose first record stays in place (first-fixed-random, first-volume-fixed, last-pair-swapped, '
        'interleaved-volumes) with REC slabs permuted alike; dropped tail of 0..2*slices records (or random dropped '
        'records); x scaling {dv,fp} x strict_sort x permit_truncated x how the pair is opened (PAR name, REC name, '
        'lower-case extensions, from_file_map, nibabel.load) x mmap {False,True,c,r}; trunc-mid stream: strict + '
        'permit_truncated with ONE incomplete volume that is not the last in label order (volumes written '
        'reversed/shuffled/last-first, slices ascending/descending/interleaved, 1..S-1 records lost at the end); '
        'edge stream: slice numbers out of range, duplicate volume labels (V4-like diffusion), missing whole '
        'volumes, wrong maxima. A case is non-trivial when it has >1 volume or is truncated; distinct by (cfg, '
        'records in file order, flags). read stream: for most load cases (always for canonical / volume-shuffled and '
        'first-in-place untruncated files) 5 index tuples read through the proxy (`[..., k]`, strided and negative '
        'slices, int+slice mixes, a few out-of-range ints), scaled and unscaled, and through img.slicer. spec '
        'stream: the specification predicate `complete` and the hypotheses of truncated_exactly_full_volumes '
        '(model) against the by-label analysis of the harness, and the conclusion of the theorem on the real loader '
        'whenever the hypotheses hold. helper stream: vol_numbers / vol_is_full on random slice-number lists. gen '
        'stream: the vol_numbers TRANSLATED from the working tree, run by the driver, against the real function on '
        'arbitrary int lists. genm stream: the METHODS translated from the working tree (vol_is_full with any range '
        'start, n_slices, n_vols, shape, lax order, strict key list, sorted indices, volume labels, get_def) run by '
        'the driver on the encoded header against the real methods on a header holding the same records (22% of '
        'the load cases, 50% of the edge cases). hops dimension (30% of load/read cases): the header of the opened '
        'image is handed on through 1-3 of copy() / from_header / PARRECImage(.., header=h).header and everything is '
        'observed through that header and a NEW PARRECArrayProxy built on it (driver op chain = loadChain). Every '
        'load case also compares img.header (and its flags with the requested options) with from_header / a '
        're-wrapped image / with img.header with a further copy() and with '
        'PARRECHeader.from_fileobj, the proxy scaling arrays with the own-record factors, and (diffusion) '
        'get_bvals_bvecs with the b factors of the volumes.')

# ------------------------------------------------------------------ regen (Generated/C20Funcs.lean)

GEN_PATH = os.path.join(common.VERIF, 'lean', 'NibabelModel', 'Generated', 'C20Funcs.lean')
GEN_FUNCS = [('vol_numbers', 'vol_numbers')]
GENM_PATH = os.path.join(common.VERIF, 'lean', 'NibabelModel', 'Generated', 'C20Methods.lean')
# (attribute path in nibabel.parrec, Lean name, cut after the first top-level assignment to this variable)
GEN_METHODS = [('vol_is_full', 'vol_is_full', None), ('PARRECHeader.get_def', 'get_def', None),
               ('PARRECHeader._get_n_slices', 'get_n_slices', None), ('PARRECHeader._get_n_vols', 'get_n_vols', None),
               ('PARRECHeader._calc_data_shape', 'calc_data_shape', None),
               ('PARRECHeader._lax_sort_order', 'lax_sort_order', None),
               ('PARRECHeader.get_sorted_slice_indices', 'get_sorted_slice_indices', None),
               ('PARRECHeader._strict_sort_order', 'strict_sort_keys', 'keys'),
               ('PARRECHeader.get_volume_labels', 'get_volume_labels', None)]


def _lean_str_list(xs):
    return '[' + ', '.join('"%s"' % x.replace('\\', '\\\\').replace('"', '\\"') for x in xs) + ']'


def _tuple_terms(node):
    """`(a, b) + c + (d,)` -> ['a', 'b', '+c', 'd'] (source text of every lexsort key, in tuple order;
    a name that is concatenated as a whole tuple is prefixed with '+')"""
    import ast
    if isinstance(node, ast.BinOp) and isinstance(node.op, ast.Add):
        return _tuple_terms(node.left) + _tuple_terms(node.right)
    if isinstance(node, ast.Tuple):
        return [ast.unparse(e) for e in node.elts]
    return ['+' + ast.unparse(node)]


def source_tables():
    """Tables read off the CURRENT source of nibabel/parrec.py with `ast` (no execution):
    the lexsort key tuples of _strict_sort_order / _lax_sort_order, the field behind every key variable,
    `dynamic_keys` of get_volume_labels, the image-definition fields of every PAR version."""
    import ast
    import importlib
    import inspect
    import textwrap
    from nibabel import parrec
    importlib.reload(parrec)

    def fn_ast(f):
        return ast.parse(textwrap.dedent(inspect.getsource(f))).body[0]

    def assigns(fn, name):
        return [n.value for n in ast.walk(fn) if isinstance(n, ast.Assign) and len(n.targets) == 1 and
                isinstance(n.targets[0], ast.Name) and n.targets[0].id == name]

    def lexsort_args(fn):
        return [n.args[0] for n in ast.walk(fn) if isinstance(n, ast.Call) and ast.unparse(n.func) == 'np.lexsort']

    strict = fn_ast(parrec.PARRECHeader._strict_sort_order)
    lax = fn_ast(parrec.PARRECHeader._lax_sort_order)
    labels = fn_ast(parrec.PARRECHeader.get_volume_labels)
    t = {}
    (keys,) = assigns(strict, 'keys')
    t['strictKeysSrc'] = _tuple_terms(keys)
    # field behind each variable: `x = idefs['f']`, `x = self.get_def('f')` (first assignment; the V4
    # fallback `bvals = self.get_def('diffusion_b_factor')` is the second one of `bvals`)
    var_field, fallback = [], []
    for n in ast.walk(strict):
        if isinstance(n, ast.Assign) and len(n.targets) == 1 and isinstance(n.targets[0], ast.Name):
            v, name = n.value, n.targets[0].id
            field = None
            if isinstance(v, ast.Subscript) and ast.unparse(v.value) == 'idefs' and isinstance(v.slice, ast.Constant):
                field = v.slice.value
            elif isinstance(v, ast.Call) and ast.unparse(v.func) == 'self.get_def' and isinstance(v.args[0], ast.Constant):
                field = v.args[0].value
            if field is not None:
                (fallback if name in [k for k, _ in var_field] else var_field).append((name, field))
    t['strictVarField'] = var_field
    t['strictVarFallback'] = fallback
    dk = [_tuple_terms(v) for v in assigns(strict, 'diffusion_keys')]
    t['diffusionKeysAlts'] = dk                       # in source order: no b-vectors / with b-vectors / none
    ak = [n for n in ast.walk(strict) if isinstance(n, ast.Assign) and ast.unparse(n.targets[0]) == 'asl_keys']
    (ak,) = ak
    t['aslKeysSrc'] = ast.unparse(ak.value)
    args = lexsort_args(strict)
    t['stage2KeysSrc'] = _tuple_terms(args[-1])
    (lk,) = assigns(lax, 'keys')
    t['laxKeysSrc'] = _tuple_terms(lk)
    (dyn,) = [v for v in assigns(labels, 'dynamic_keys') if isinstance(v, ast.List)]
    t['dynamicKeysSrc'] = [e.value for e in dyn.elts]
    wanted = set(t['dynamicKeysSrc']) | {f for _, f in var_field + fallback}
    t['fields'] = {ver: [item[0] for item in parrec.image_def_dtds[ver] if item[0] in wanted]
                   for ver in ('V4', 'V4.1', 'V4.2')}
    return t


def regen():
    """vol_numbers translated statement by statement from the CURRENT parrec.py (py2lean), and the sort-key /
    label-key tables read off the source, into Generated/C20Funcs.lean"""
    import importlib
    from nibabel import parrec
    importlib.reload(parrec)
    hdr = ('/-! GENERATED by harness/props/c20.py regen() from the working tree of nibabel (nibabel/parrec.py):\n'
           '    `vol_numbers` translated with harness/py2lean.py; key tables read off the source with `ast`.\n'
           '    Do not edit: rewritten on every run of `./check C20`. Core Lean only. -/')
    text = py2lean.translate_functions([(getattr(parrec, py), ln) for py, ln in GEN_FUNCS], 'Nb.Gen.C20F', hdr, {})
    t = source_tables()
    tab = ['', '/-! ### tables read off the source -/', 'namespace Nb.Gen.C20T', '']
    for name in ('strictKeysSrc', 'stage2KeysSrc', 'laxKeysSrc', 'dynamicKeysSrc'):
        tab.append('def %s : List String := %s' % (name, _lean_str_list(t[name])))
    tab.append('def aslKeysSrc : String := "%s"' % t['aslKeysSrc'].replace('"', '\\"'))
    for name in ('strictVarField', 'strictVarFallback'):
        tab.append('def %s : List (String × String) := [%s]' % (
            name, ', '.join('("%s", "%s")' % kv for kv in t[name])))
    tab.append('def diffusionKeysAlts : List (List String) := [%s]' % ', '.join(_lean_str_list(x) for x in t['diffusionKeysAlts']))
    for ver, nm in (('V4', 'fieldsV4'), ('V4.1', 'fieldsV41'), ('V4.2', 'fieldsV42')):
        tab.append('def %s : List String := %s' % (nm, _lean_str_list(t['fields'][ver])))
    tab += ['', 'end Nb.Gen.C20T', '']
    common.write_if_changed(GEN_PATH, text.rstrip('\n') + '\n' + '\n'.join(tab))
    # the methods / array helpers that are Python control flow around NumPy primitives (py2lean_c20)
    hdr2 = ('/-! GENERATED by harness/props/c20.py regen() from the working tree of nibabel (nibabel/parrec.py) with\n'
            '    harness/py2lean_c20.py: `self.x` reads are value parameters, `self.f(..)` and `np.lexsort` callable\n'
            '    parameters, the other NumPy / set operations the primitives of Model/C20_Py.lean (namespace NV).\n'
            '    Do not edit: rewritten on every run of `./check C20`. Core Lean only. -/')

    def resolve(path):
        o = parrec
        for part in path.split('.'):
            o = getattr(o, part)
        return o
    mtext, _ = py2lean_c20.translate_methods(
        [(resolve(py), ln, cut) for py, ln, cut in GEN_METHODS], 'Nb.Gen.C20M', hdr2,
        known={'vol_numbers': ('Nb.Gen.C20F.vol_numbers', {}, {}, 1)},
        imports=['import NibabelModel.Generated.C20Funcs'])
    common.write_if_changed(GENM_PATH, mtext)
    return ['Generated.C20Funcs.vol_numbers', 'Generated.C20Funcs.tables'] + \
           ['Generated.C20Methods.' + ln for _, ln, _ in GEN_METHODS]


def _r(sl, dy, pl):
    return [sl, 1, dy, 1, 0, 2, 1, 1, 1, 0, 1, 1, pl]


PENDING_FINDINGS = [
    {'property': 'C20', 'signature': 'parrec:truncated-multi-partial-nvols-overcount', 'status': 'open',
     'what': 'with several partial volumes (random record permutation + dropped tail) get_data_shape over-counts '
             'the complete volumes (_get_n_vols counts global slice occurrences)',
     'input': {'op': 'load', 'ver': 42, 'diffusion': 0, 'max': [2, 1, 3, 1, 1, 1, 1],
               'recs': [_r(1, 1, 11), _r(2, 1, 12), _r(1, 2, 21), _r(2, 3, 32)],
               'strict': 1, 'permit': 1, 'scaling': 'dv', 'order': 'random', 'dropped': 2, 'drop_mode': 'tail',
               'stream': 'truncated'}},
    {'property': 'C20', 'signature': 'parrec:truncated-no-complete-volume', 'status': 'open',
     'what': 'a truncated recording without any complete volume is loaded as a 3-D image made of the slices of '
             'the partial volume(s) (n_vols = 0 is treated like 1)',
     'input': {'op': 'load', 'ver': 42, 'diffusion': 0, 'max': [2, 1, 1, 1, 1, 1, 1], 'recs': [_r(1, 1, 11)],
               'strict': 1, 'permit': 1, 'scaling': 'dv', 'order': 'canonical', 'dropped': 1, 'drop_mode': 'tail',
               'stream': 'truncated'}},
    {'property': 'C20', 'signature': 'parrec:truncation-unnoticed-partial-volumes-cover-all-slices', 'status': 'open',
     'what': 'permit_truncated=False does not refuse a truncated recording whose partial volumes together cover '
             'every slice position (_truncation_checks tests completeness by global slice occurrences)',
     'input': {'op': 'load', 'ver': 42, 'diffusion': 0, 'max': [2, 2, 1, 1, 1, 1, 1],
               'recs': [[2, 2, 1, 1, 0, 2, 1, 1, 1, 0, 1, 1, 22], [1, 1, 1, 1, 0, 2, 1, 1, 1, 0, 1, 1, 11]],
               'strict': 1, 'permit': 0, 'scaling': 'dv', 'order': 'random', 'dropped': 2, 'drop_mode': 'tail',
               'stream': 'truncated'}},
]

FIELDS = ('slice', 'echo', 'dyn', 'phase', 'itype', 'seq', 'bval', 'grad', 'label', 'ri', 'rs', 'ss', 'payload')
F = {n: i for i, n in enumerate(FIELDS)}
_FIXTURE = {40: 'phantom_fake_v4.PAR', 41: 'phantom_fake_v4_1.PAR', 42: 'Phantom_EPI_3mm_tra_SENSE_6_1.PAR'}
_GEN_KEYS = {
    'Max. number of cardiac phases': 'maxP', 'Max. number of echoes': 'maxE',
    'Max. number of slices/locations': 'maxS', 'Max. number of dynamics': 'maxD',
    'Diffusion         <0=no 1=yes> ?': 'diffusion', 'Max. number of diffusion values': 'maxB',
    'Max. number of gradient orients': 'maxG', 'Number of label types   <0=no ASL>': 'maxL',
}
XY = (2, 3)          # recon resolution written into every record
_TMP = None
_TEMPLATES = {}
_COUNTER = [0]


def _tmpdir():
    global _TMP
    if _TMP is None:
        _TMP = tempfile.mkdtemp(prefix='c20_')
        atexit.register(shutil.rmtree, _TMP, True)
    return _TMP


def _template(ver):
    """(general-information lines, items of one record line, trailer) of the fixture of this version"""
    if ver not in _TEMPLATES:
        import nibabel
        path = os.path.join(os.path.dirname(nibabel.__file__), 'tests', 'data', _FIXTURE[ver])
        head, items, seen_rec = [], None, False
        for line in open(path).read().splitlines():
            st = line.strip()
            if st and st[0] not in '#.':
                if items is None:
                    items = st.split()
                seen_rec = True
            elif not seen_rec:
                head.append(line)
        _TEMPLATES[ver] = (head, items)
    return _TEMPLATES[ver]


def par_text(d):
    """PAR file text for the case data `d` (records in file order)"""
    ver = d['ver']
    head, items = _template(ver)
    vals = {'maxS': d['max'][0], 'maxE': d['max'][1], 'maxD': d['max'][2], 'maxB': d['max'][3],
            'maxG': d['max'][4], 'maxP': d['max'][5], 'maxL': d['max'][6], 'diffusion': d['diffusion']}
    out = []
    for line in head:
        if line.startswith('.'):
            key = line[1:].split(':')[0].strip()
            for k, name in _GEN_KEYS.items():
                if key == k.strip():
                    line = line.split(':')[0] + ':   %d' % vals[name]
        out.append(line)
    out.append('')
    for pos, r in enumerate(d['recs']):
        it = list(items)
        it[0], it[1], it[2], it[3], it[4], it[5] = (str(r[F[k]]) for k in ('slice', 'echo', 'dyn', 'phase', 'itype', 'seq'))
        it[6] = str(pos)
        it[7] = '16'
        it[9], it[10] = str(XY[0]), str(XY[1])
        it[11] = '%d.00000' % r[F['ri']]
        it[12] = '%d.00000' % r[F['rs']]
        it[13] = '%d.00000' % r[F['ss']]
        if ver == 40:
            it[33] = '%d.00' % r[F['bval']]          # diffusion_b_factor is the b-value key of V4 files
        else:
            it[41], it[42] = str(r[F['bval']]), str(r[F['grad']])
            it[33] = '%d.00' % bfactor(ver, r)       # the same for every slice of a volume (get_bvals_bvecs)
            it[45], it[46], it[47] = ('%.3f' % (0.1 * r[F['grad']]), '%.3f' % (0.2 * r[F['bval']]), '0.500')
        if ver == 42:
            it[48] = str(r[F['label']])
        out.append('  ' + '  '.join(it))
    out.append('')
    out.append('# === END OF DATA DESCRIPTION FILE ===============================================')
    return '\n'.join(out) + '\n'


def bfactor(ver, r):
    """diffusion_b_factor written for a record: V4 files have only this column (it is their b-value sort key);
    later versions get a value determined by the volume's diffusion labels"""
    return r[F['bval']] if ver == 40 else 100 * r[F['bval']] + r[F['grad']]


def rec_bytes(d):
    n = len(d['recs'])
    arr = np.empty(XY + (n,), dtype='<u2')
    arr[...] = np.array([r[F['payload']] for r in d['recs']], dtype='<u2')
    return arr.tobytes(order='F')


# ------------------------------------------------------------------ cases

def mk_case(d, stream):
    d = dict(d)
    d['stream'] = stream
    cfg = '%d,%d,%d,%d,%d,%d,%d' % (d['ver'], d['diffusion'], d['max'][0], d['max'][1], d['max'][2],
                                   d['max'][3], d['max'][4])
    recs = ';'.join(','.join(str(int(v)) for v in r) for r in d['recs'])
    line = 'C20 load %d %d %s %s %s' % (d['strict'], d['permit'], d['scaling'], cfg, recs or '-')
    if d.get('hops'):       # the header handed on through copy()/from_header/img.header, observed through a new proxy
        line = 'C20 chain %s %d %d %s %s %s' % (d['hops'], d['strict'], d['permit'], d['scaling'], cfg, recs or '-')
    nvol = len({_label_tuple(d, r) for r in d['recs']})
    trivial = nvol <= 1 and not d.get('dropped')
    key = None if trivial else (cfg, recs, d['strict'], d['permit'], d['scaling'])
    if key is not None and (d.get('via', 'par') != 'par' or d.get('mmap', False) is not False):
        key = key + (d.get('via', 'par'), str(d.get('mmap', False)))
    if key is not None and d.get('hops'):
        key = key + ('hops', d['hops'])
    return Case(line, d, key, stream)


def _fmt_item(it):
    if it == 'e':
        return 'e'
    if isinstance(it, list):
        return 's' + ','.join('_' if v is None else str(int(v)) for v in it)
    return 'i%d' % int(it)


def _to_index(slicer):
    return tuple(Ellipsis if it == 'e' else slice(*it) if isinstance(it, list) else int(it) for it in slicer)


def mk_read_case(d, slicers, stream='read'):
    """sliced reads `dataobj[slicer]` of the data set `d` (same fields as a load case + 'slicers')"""
    d = dict(d, op='read', slicers=[list(sl) for sl in slicers], stream=stream)
    cfg = '%d,%d,%d,%d,%d,%d,%d' % (d['ver'], d['diffusion'], d['max'][0], d['max'][1], d['max'][2],
                                   d['max'][3], d['max'][4])
    recs = ';'.join(','.join(str(int(v)) for v in r) for r in d['recs'])
    sls = '|'.join(';'.join(_fmt_item(it) for it in sl) for sl in d['slicers'])
    line = 'C20 read %d %d %s %s %s %d,%d %s' % (d['strict'], d['permit'], d['scaling'], cfg, recs, XY[0], XY[1], sls)
    return Case(line, d, ('read', cfg, recs, d['strict'], d['permit'], d['scaling'], sls), stream)


def gen_slicers(rng, S, V, n):
    """index tuples for an array of (expected) shape XY + (S[, V]): `[..., k]`, strided / negative slices,
    int + slice mixes, now and then an out-of-range int"""
    def plane():
        return rng.choice([[None, None, None], [None, None, None], [None, None, -1], 0, 1, [1, None, None]])

    def axis(n_):
        r = rng.random()
        if r < 0.35:
            return rng.randrange(-n_, n_) if rng.random() < 0.95 else n_ + rng.randint(0, 1)
        return rng.choice([[None, None, None], [None, None, -1], [None, None, 2], [1, None, None], [-2, None, None],
                           [None, -1, None], [None, None, -2], [rng.randrange(n_), rng.randrange(n_) + 1, None]])
    four = V > 1
    out = []
    last = V if four else S
    for k in rng.sample(range(last), min(last, 2)):
        out.append(['e', k])                                   # one whole volume / slice
    while len(out) < n:
        kind = rng.random()
        if kind < 0.25:
            out.append(['e', axis(last)])
        elif kind < 0.45:
            out.append([plane(), plane(), axis(S)])
        elif four:
            out.append([plane(), plane(), axis(S), axis(V)])
        else:
            out.append([plane(), plane(), axis(S)])
    return out


def mk_spec_case(d):
    """spec predicate `complete` / hypotheses of truncated_exactly_full_volumes on the records of `d`"""
    d = dict(d, op='spec', stream='spec')
    cfg = '%d,%d,%d,%d,%d,%d,%d' % (d['ver'], d['diffusion'], d['max'][0], d['max'][1], d['max'][2],
                                   d['max'][3], d['max'][4])
    recs = ';'.join(','.join(str(int(v)) for v in r) for r in d['recs'])
    return Case('C20 spec %s %s' % (cfg, recs), d, ('spec', cfg, recs), 'spec')


def spec_reference(d):
    """(payloads of the records of complete label sets in label/slice order, H0 and H1 hold)"""
    sets, complete, partial, dup, oob = analyse(d)
    S = d['max'][0]
    in_partial = {r[0] for v in partial.values() for r in v}
    hyps = bool(complete) and any(s not in in_partial for s in range(1, S + 1))
    return [r[F['payload']] for k in sorted(complete) for r in complete[k]], hyps


def mk_helper(op, smax, sl):
    sls = ','.join(map(str, sl)) if sl else '-'
    line = 'C20 volnos %s' % sls if op == 'volnos' else 'C20 isfull %d %s' % (smax, sls)
    return Case(line, {'op': op, 'smax': smax, 'sl': list(sl), 'stream': 'helper'}, (op, smax, tuple(sl)), 'helper')


def mk_gen(sl):
    """the TRANSLATED vol_numbers (Generated/C20Funcs.lean) against the real one"""
    sls = ','.join(map(str, sl)) if sl else '-'
    return Case('C20 gen vol_numbers %s' % sls, {'op': 'gen', 'fn': 'vol_numbers', 'sl': list(sl), 'stream': 'gen'},
                ('gen', tuple(sl)), 'gen')


GENM_OPS = ('n_slices', 'n_vols', 'shape', 'lax', 'keys', 'idx', 'labels', 'def')
GENM_FIELDS = ('slice number', 'diffusion b value number', 'diffusion_b_factor', 'gradient orientation number',
               'label type', 'echo number', 'no such field')


def mk_genm(d, m, field=None):
    """a TRANSLATED header method (Generated/C20Methods.lean, composed in Model/C20_PyHdr.lean) against the real
    method on a header holding the records of `d`"""
    d = dict(d, op='genm', m=m, stream='genm')
    if m == 'def':
        d['field'] = field
    cfg = '%d,%d,%d,%d,%d,%d,%d' % (d['ver'], d['diffusion'], d['max'][0], d['max'][1], d['max'][2],
                                   d['max'][3], d['max'][4])
    recs = ';'.join(','.join(str(int(v)) for v in r) for r in d['recs'])
    tok = m if m != 'def' else 'def:' + field.replace(' ', '+')
    return Case('C20 genm %s %d %s %s' % (tok, d['strict'], cfg, recs), d, ('genm', tok, d['strict'], cfg, recs), 'genm')


def mk_genm_full(smax, smin, sl):
    sls = ','.join(map(str, sl)) if sl else '-'
    return Case('C20 genm vol_is_full %d %d %s' % (smax, smin, sls),
                {'op': 'genm', 'm': 'vol_is_full', 'smax': smax, 'smin': smin, 'sl': list(sl), 'stream': 'genm'},
                ('genm', 'vol_is_full', smax, smin, tuple(sl)), 'genm')


def genm_cases(rng, d, n):
    out = []
    for _ in range(n):
        m = rng.choice(GENM_OPS)
        # ('diffusion_b_factor' is a key column only of V4 files; the encoded header of later versions omits it)
        fields = [f for f in GENM_FIELDS if f != 'diffusion_b_factor' or d['ver'] == 40]
        out.append(mk_genm(d, m, rng.choice(fields) if m == 'def' else None))
    return out


def case_from_data(d):
    if d.get('op') == 'genm':
        if d['m'] == 'vol_is_full':
            return mk_genm_full(d['smax'], d['smin'], d['sl'])
        return mk_genm(d, d['m'], d.get('field'))
    if d.get('op') == 'gen':
        return mk_gen(d['sl'])
    if d.get('op') in ('volnos', 'isfull'):
        return mk_helper(d['op'], d['smax'], d['sl'])
    if d.get('op') == 'read':
        return mk_read_case(d, d['slicers'], d.get('stream', 'read'))
    if d.get('op') == 'spec':
        return mk_spec_case(d)
    return mk_case(d, d.get('stream', 'main'))


def _label_tuple(d, r):
    """volume label of a record: every documented sort field except the slice number, slowest first
    (module docstring of parrec.py: image_type_mr, dynamic, label type, b value, gradient orientation,
    cardiac phase, echo)"""
    t = [r[F['itype']], r[F['dyn']]]
    if d['ver'] == 42:
        t.append(r[F['label']])
    t.append(r[F['bval']])
    if d['ver'] != 40:
        t.append(r[F['grad']])
    t += [r[F['phase']], r[F['echo']]]
    return tuple(t)


def gen_dataset(rng, ver=None, max_vols=8):
    ver = ver or rng.choice([42, 42, 42, 41, 40])
    while True:
        S = rng.randint(2, 5)
        E = rng.choice([1, 1, 2, 3])
        D = rng.choice([1, 1, 2, 3])
        P = rng.choice([1, 1, 1, 2])
        T = rng.choice([[0], [0], [0, 1], [0, 3], [1, 2]])
        L = rng.choice([1, 1, 2]) if ver == 42 else 1
        diffusion = rng.choice([0, 0, 1])
        B = rng.choice([1, 2]) if diffusion else 1
        G = rng.choice([1, 2, 3]) if diffusion and ver != 40 else 1
        nv = E * D * P * len(T) * L * B * G
        if 2 <= nv <= max_vols or (nv == 1 and rng.random() < 0.05):
            break
    bvals = [0, 1000][:B] if ver == 40 else list(range(1, B + 1))
    scale_mode = rng.choice(['record', 'record', 'volume', 'itype', 'uni-slope', 'uni-ss', 'uni-rs', 'uni-inter'])
    uni = scales0 = None
    seq_of_echo = {e: rng.choice([0, 2, 2, 4]) for e in range(1, E + 1)}
    payloads = rng.sample(range(1, 60000), S * nv)
    recs = []
    vol_scale, ty_scale = {}, {}

    def scales():
        return [rng.randint(-30, 30), rng.randint(1, 12), rng.randint(1, 12)]
    uni = scales()          # the factors shared by all records in the 'uni-*' modes

    def scales_uni():
        """ONE slope for the whole file but varying intercepts (and the other way round): dv slope = RS,
        fp slope = 1/SS, fp intercept = RI/(RS*SS)"""
        ri, rs, ss = scales()
        if scale_mode == 'uni-slope':
            return [ri, uni[1], uni[2]]
        if scale_mode == 'uni-ss':
            return [ri, rs, uni[2]]
        if scale_mode == 'uni-rs':
            return [ri, uni[1], ss]
        return [uni[0], rs, ss]
    for ty in T:
        for dy in range(1, D + 1):
            for lb in range(1, L + 1):
                for bv in bvals:
                    for gr in range(1, G + 1):
                        for ph in range(1, P + 1):
                            for ec in range(1, E + 1):
                                for sl in range(1, S + 1):
                                    vk = (ty, dy, lb, bv, gr, ph, ec)
                                    if scale_mode == 'record':
                                        sc = scales()
                                    elif scale_mode == 'volume':
                                        sc = vol_scale.setdefault(vk, scales())
                                    elif scale_mode.startswith('uni-'):
                                        sc = scales_uni()
                                    else:
                                        sc = ty_scale.setdefault(ty, scales())
                                    recs.append([sl, ec, dy, ph, ty, seq_of_echo[ec], bv, gr, lb] + list(sc) +
                                                [payloads[len(recs)]])
    d = {'op': 'load', 'ver': ver, 'diffusion': diffusion, 'max': [S, E, D, B, G, P, L], 'recs': recs}
    return d


ORDERS = ('canonical', 'reversed', 'slice-major', 'interleaved', 'volumes-shuffled', 'random', 'random',
          'first-fixed-random', 'first-volume-fixed', 'last-pair-swapped', 'interleaved-volumes')
# unsorted orders whose FIRST record is the first-sorting one (and, for some, whose index list is ascending or
# sequential up to the very end): the orders a too-weak "can read straight from the REC file" test accepts
FIRST_IN_PLACE = ('slice-major', 'interleaved', 'first-fixed-random', 'first-volume-fixed', 'last-pair-swapped',
                  'interleaved-volumes')


def reorder(rng, d, kind):
    recs = list(d['recs'])          # canonical: volume-major by label, slices ascending
    S = d['max'][0]
    vols = [recs[i:i + S] for i in range(0, len(recs), S)]
    if kind == 'reversed':
        recs.reverse()
    elif kind == 'slice-major':
        recs = [v[s] for s in range(S) for v in vols]
    elif kind == 'interleaved':
        recs = [r for v in vols for r in v[0::2] + v[1::2]]
    elif kind == 'volumes-shuffled':
        rng.shuffle(vols)
        desc = rng.random() < 0.3
        recs = [r for v in vols for r in (v[::-1] if desc else v)]
    elif kind == 'random':
        rng.shuffle(recs)
    elif kind == 'first-fixed-random':
        rest = recs[1:]
        rng.shuffle(rest)
        recs = recs[:1] + rest
    elif kind == 'first-volume-fixed':
        rest = vols[1:]
        if len(rest) > 1:
            while True:
                perm = rest[:]
                rng.shuffle(perm)
                if perm != rest:
                    break
            rest = perm
        elif rest:
            rest = [rest[0][::-1]]
        recs = [r for v in vols[:1] + rest for r in v]
    elif kind == 'last-pair-swapped':
        if len(recs) >= 2:
            recs[-1], recs[-2] = recs[-2], recs[-1]
    elif kind == 'interleaved-volumes':       # even volumes first, then the odd ones; slices in order
        recs = [r for v in vols[0::2] + vols[1::2] for r in v]
    return recs


VIAS = ('par', 'par', 'par', 'rec', 'lower', 'filemap', 'nibload')
MMAPS = (False, False, True, 'c', 'r')


def _how(rng):
    """how the pair is opened: by PAR name / REC name / lower-case extensions / from_file_map / nibabel.load,
    and the proxy's mmap mode — none of them may matter"""
    h = {}
    if rng.random() < 0.3:
        h['via'] = rng.choice(VIAS)
    if rng.random() < 0.3:
        h['mmap'] = rng.choice(MMAPS)
    if rng.random() < 0.3:      # hand the header on: c = copy(), f = from_header, i = PARRECImage(.., header=h).header
        h['hops'] = ''.join(rng.choice('cfi') for _ in range(rng.randint(1, 3)))
    return {k: v for k, v in h.items() if (k, v) not in (('via', 'par'), ('mmap', False))}


def variants(rng, base, tier, n_orders):
    out = []
    S = base['max'][0]
    kinds = list(ORDERS)
    rng.shuffle(kinds)
    for kind in kinds[:n_orders]:
        recs = reorder(rng, base, kind)
        n = len(recs)
        drops = [0, rng.randint(1, max(1, min(2 * S, n - S)))]
        if rng.random() < 0.3:
            drops.append(rng.randint(1, min(2 * S, n - 1)))
        for k in drops:
            kept = recs[:n - k]
            mode = 'tail'
            if k and rng.random() < 0.15:       # records lost anywhere, not only at the end
                lost = set(rng.sample(range(n), k))
                kept = [r for i, r in enumerate(recs) if i not in lost]
                mode = 'anywhere'
            for strict in (1, 0):
                if strict == 0 and rng.random() < 0.5:
                    continue
                scaling = rng.choice(['dv', 'fp'])
                permit = 1 if (k and rng.random() < 0.9) else rng.choice([0, 1])
                d = dict(base, recs=kept, strict=strict, permit=permit, scaling=scaling, order=kind,
                         dropped=k, drop_mode=mode if k else None, **_how(rng))
                out.append(mk_case(d, 'main' if not k else 'truncated'))
                if rng.random() < 0.22:
                    out.extend(genm_cases(rng, d, 1))
                if strict and rng.random() < 0.5:
                    out.append(mk_spec_case(d))
                # sliced reads through the proxy; always for the orders that keep the first (and the last)
                # record in place without being sorted
                always = kind in FIRST_IN_PLACE + ('volumes-shuffled', 'canonical') and not k
                if rng.random() < (1.0 if always else 0.6 if kind in FIRST_IN_PLACE else 0.35):
                    nvol = max(1, (len(kept) // S) if S else 1)
                    out.append(mk_read_case(d, gen_slicers(rng, S, nvol, 5)))
    return out


def trunc_mid_cases(rng, base):
    """strict_sort + permit_truncated with ONE incomplete volume that is NOT the last one in label order:
    the volumes are written reversed / shuffled (slices ascending, descending or interleaved inside a volume)
    and the recording loses 1..S-1 records at its end"""
    S = base['max'][0]
    recs = list(base['recs'])
    vols = [recs[i:i + S] for i in range(0, len(recs), S)]
    if len(vols) < 2:
        return []
    out = []
    for _ in range(2):
        order = rng.choice(['reversed', 'shuffled', 'last-first'])
        vs = [list(v) for v in vols]
        if order == 'reversed':
            vs.reverse()
        elif order == 'last-first':
            vs = vs[-1:] + vs[:-1]
        else:
            rng.shuffle(vs)
        if vs[-1] == vols[-1]:          # the file's last volume must not be the last one in label order
            vs = vs[-1:] + vs[:-1]
        inner = rng.choice(['asc', 'desc', 'inter'])
        vs = [v if inner == 'asc' else v[::-1] if inner == 'desc' else v[0::2] + v[1::2] for v in vs]
        flat = [r for v in vs for r in v]
        k = rng.randint(1, S - 1)
        kept = flat[:len(flat) - k]
        for scaling in ('dv', 'fp'):
            d = dict(base, recs=kept, strict=1, permit=1, scaling=scaling, order='trunc-mid:%s:%s' % (order, inner),
                     dropped=k, drop_mode='tail', **_how(rng))
            out.append(mk_case(d, 'trunc-mid'))
        out.append(mk_spec_case(d))
        out.append(mk_read_case(d, gen_slicers(rng, S, max(1, len(vs) - 1), 4)))
    return out


def edge_cases(rng, n):
    out = []
    for _ in range(n):
        base = gen_dataset(rng, max_vols=4)
        recs = reorder(rng, base, rng.choice(ORDERS))
        kind = rng.choice(['slice-oob', 'dup-labels', 'missing-volume', 'wrong-max', 'nodiff-bvals', 'slice-gap'])
        d = dict(base)
        S = base['max'][0]
        if kind == 'slice-oob':
            i = rng.randrange(len(recs))
            recs[i] = list(recs[i])
            recs[i][0] = rng.choice([0, S + 1, -1, S + 3])
        elif kind == 'dup-labels':      # V4-like diffusion: several volumes share every label
            extra = [list(r) for r in recs[:S * rng.randint(1, 2)]]
            for j, r in enumerate(extra):
                r[F['payload']] = 60001 + j
            recs = recs + extra if rng.random() < 0.5 else extra + recs
            if rng.random() < 0.5:
                recs = recs[:len(recs) - rng.randint(1, S)]
        elif kind == 'missing-volume':
            lab = _label_tuple(base, rng.choice(recs))
            recs = [r for r in recs if _label_tuple(base, r) != lab]
            if not recs:
                continue
        elif kind == 'wrong-max':
            m = list(base['max'])
            j = rng.randrange(5)
            m[j] = max(1, m[j] + rng.choice([-1, 1, 2]))
            d['max'] = m
        elif kind == 'nodiff-bvals':
            d['diffusion'] = 0
            for i in rng.sample(range(len(recs)), max(1, len(recs) // 2)):
                recs[i] = list(recs[i])
                recs[i][F['bval']] = 2 if base['ver'] != 40 else 1000
        elif kind == 'slice-gap':       # one slice position missing from every volume
            s0 = rng.randint(1, S)
            recs = [r for r in recs if r[0] != s0]
        d.update(recs=recs, strict=rng.choice([1, 1, 0]), permit=rng.choice([1, 1, 0]),
                 scaling=rng.choice(['dv', 'fp']), order='edge:' + kind, dropped=None, edge=kind)
        out.append(mk_case(d, 'edge'))
        if rng.random() < 0.5:
            out.extend(genm_cases(rng, d, 1))
    return out


def cases(rng, tier):
    n_sets, n_orders, n_edge, maxv = {'quick': (110, 4, 160, 8), 'thorough': (900, 6, 1500, 14),
                                      'search': (150, 4, 150, 10)}[tier]
    out = []
    for i in range(n_sets):
        ver = [42, 41, 40][i % 3] if i < 6 else None
        base = gen_dataset(rng, ver=ver, max_vols=maxv)
        out.extend(variants(rng, base, tier, n_orders))
        if i % 2 == 0:
            out.extend(trunc_mid_cases(rng, base))
    out.extend(edge_cases(rng, n_edge))
    for _ in range(n_edge // 2):        # vol_numbers / vol_is_full themselves
        smax = rng.randint(1, 4)
        sl = [rng.randint(1, smax) if rng.random() < 0.95 else rng.choice([0, smax + 1])
              for _ in range(rng.randint(0, 10))]
        out.append(mk_helper(rng.choice(['volnos', 'isfull']), smax, sl))
    for _ in range(n_edge // 2):        # the translated vol_is_full: any range start, values outside the range
        smin = rng.choice([1, 1, 1, 0, 2])
        smax = smin + rng.randint(-1, 3)
        sl = [rng.randint(smin, max(smin, smax)) if rng.random() < 0.95 else rng.choice([smin - 1, smax + 1])
              for _ in range(rng.randint(0, 10))]
        out.append(mk_genm_full(smax, smin, sl))
    for _ in range(n_edge // 2):        # the translated vol_numbers: any ints (negative, large, repeated)
        pool = rng.choice([[1, 2, 3], [0, 1], [-2, 5, 7, 10 ** 6], list(range(1, 9))])
        out.append(mk_gen([rng.choice(pool) for _ in range(rng.randint(0, 14))]))
    return out


# ------------------------------------------------------------------ implementation side

SHORT = {'cardiac phase number': 'phase', 'echo number': 'echo', 'label type': 'label', 'image_type_mr': 'itype',
         'dynamic scan number': 'dyn', 'scanning sequence': 'seq', 'gradient orientation number': 'grad',
         'diffusion b value number': 'bval'}


def _rat(x):
    """exact canonical form of a float64 scale factor: the small rational that rounds to it"""
    x = float(x)
    if x != x or x in (float('inf'), float('-inf')):
        return 'x' + x.hex()
    fr = Fraction(x).limit_denominator(10 ** 6)
    if fr.numerator / fr.denominator == x:
        return '%d/%d' % (fr.numerator, fr.denominator)
    return 'x' + x.hex()


def _exts(d):
    return ('.par', '.rec') if d.get('via') == 'lower' else ('.PAR', '.REC')


def _write_pair(d, base):
    pe, re_ = _exts(d)
    with open(base + pe, 'w') as f:
        f.write(par_text(d))
    with open(base + re_, 'wb') as f:
        f.write(rec_bytes(d))


def _open_image(d, base):
    """open the pair the way `d['via']` says; with d['hops'] the header of that image is then handed on through
    copy() / from_header / PARRECImage(.., header=h).header, and the image that is observed is a NEW
    PARRECImage around a NEW PARRECArrayProxy(rec file, that header, scaling=...)"""
    img = _open_image0(d, base)
    if not d.get('hops'):
        return img
    from nibabel import parrec
    h = img.header
    for op in d['hops']:
        if op == 'c':
            h = h.copy()
        elif op == 'f':
            h = parrec.PARRECHeader.from_header(h)
        else:
            h = parrec.PARRECImage(img.dataobj, img.affine, header=h).header
    px = parrec.PARRECArrayProxy(base + _exts(d)[1], h, mmap=d.get('mmap', False), scaling=d['scaling'])
    return parrec.PARRECImage(px, h.get_affine(), header=h)


def _open_image0(d, base):
    """open the pair the way `d['via']` says (default: parrec.load on the PAR name), proxy mmap mode d['mmap']"""
    import nibabel
    from nibabel import parrec
    pe, re_ = _exts(d)
    kw = dict(permit_truncated=bool(d['permit']), scaling=d['scaling'], strict_sort=bool(d['strict']),
              mmap=d.get('mmap', False))
    via = d.get('via', 'par')
    if via == 'rec':
        return parrec.load(base + re_, **kw)
    if via == 'filemap':
        return parrec.PARRECImage.from_file_map(parrec.PARRECImage.filespec_to_file_map(base + pe), **kw)
    if via == 'nibload':
        return nibabel.load(base + pe, **kw)
    return parrec.load(base + pe, **kw)


def _header_consistency(img, d):
    """the index list / scaling / labels / shape of `img.header`, of a further copy() of it and of a header read
    straight from the PAR text must be the same objects' worth of information"""
    from nibabel import parrec
    import io
    hdr = img.header
    others = [('header.copy()', hdr.copy()), ('PARRECHeader.from_header(header)', parrec.PARRECHeader.from_header(hdr)),
              ('PARRECImage(dataobj, affine, header=header).header',
               parrec.PARRECImage(img.dataobj, img.affine, header=hdr).header)]
    if hdr.strict_sort != bool(d['strict']) or hdr.permit_truncated != bool(d['permit']):
        return 'header: img.header has strict_sort=%r permit_truncated=%r, the image was opened with %r / %r' % (
            hdr.strict_sort, hdr.permit_truncated, bool(d['strict']), bool(d['permit']))
    others.append(('PARRECHeader.from_fileobj', parrec.PARRECHeader.from_fileobj(
        io.StringIO(par_text(d)), permit_truncated=bool(d['permit']), strict_sort=bool(d['strict']))))
    ref_idx = [int(i) for i in hdr.get_sorted_slice_indices()]
    ref_sc = [np.asarray(a).tobytes() for a in hdr.get_data_scaling(d['scaling'])]
    ref_lab = [(k, [int(x) for x in v]) for k, v in hdr.get_volume_labels().items()]
    for name, h in others:
        if [int(i) for i in h.get_sorted_slice_indices()] != ref_idx:
            return 'header: get_sorted_slice_indices() of %s differs from img.header' % name
        if [np.asarray(a).tobytes() for a in h.get_data_scaling(d['scaling'])] != ref_sc:
            return 'header: get_data_scaling() of %s differs from img.header' % name
        if [(k, [int(x) for x in v]) for k, v in h.get_volume_labels().items()] != ref_lab:
            return 'header: get_volume_labels() of %s differs from img.header' % name
        if tuple(h.get_data_shape()) != tuple(hdr.get_data_shape()) or h.strict_sort != hdr.strict_sort or \
                h.permit_truncated != hdr.permit_truncated:
            return 'header: shape / flags of %s differ from img.header' % name
    if tuple(img.shape) != tuple(hdr.get_data_shape()):
        return 'header: img.shape %s, header shape %s' % (img.shape, hdr.get_data_shape())
    return None


def _bvals(hdr):
    try:
        bvals, bvecs = hdr.get_bvals_bvecs()
    except Exception as e:
        return errname(e), None
    return (None if bvals is None else [float(v) for v in bvals],
            None if bvecs is None else np.asarray(bvecs, dtype='<f8').tobytes().hex())


def observe(d):
    """Load the PAR/REC pair of `d` with the real code; returns a dict of observables (or {'err': ..})"""
    import warnings
    _COUNTER[0] += 1
    base = os.path.join(_tmpdir(), 'c%d_%d' % (os.getpid(), _COUNTER[0]))
    try:
        _write_pair(d, base)
        with warnings.catch_warnings():
            warnings.simplefilter('ignore')
            try:
                img = _open_image(d, base)
                hdr = img.header
                shape = tuple(int(v) for v in img.shape)
                idx = [int(i) for i in hdr.get_sorted_slice_indices()]
                raw = np.asarray(img.dataobj.get_unscaled())
                slabs = raw.reshape(shape[:2] + (-1,), order='F')
                data = []
                for k in range(slabs.shape[2]):
                    u = np.unique(slabs[:, :, k])
                    data.append(int(u[0]) if len(u) == 1 else -1)
                slopes, inters = hdr.get_data_scaling(d['scaling'])
                labels = hdr.get_volume_labels()
                scaled = np.asarray(img.dataobj)
                sslabs = scaled.reshape(shape[:2] + (-1,), order='F')
                scaled_vals = []
                for k in range(sslabs.shape[2]):
                    u = np.unique(sslabs[:, :, k])
                    scaled_vals.append(float(u[0]) if len(u) == 1 else None)
                psc = getattr(img.dataobj, '_slice_scaling', None)      # the proxy's own scaling arrays
                bvals, bvecs = _bvals(hdr)
                return {
                    'pslopes': None if psc is None else [float(v) for v in np.asarray(psc[0]).ravel(order='F')],
                    'pinters': None if psc is None else [float(v) for v in np.asarray(psc[1]).ravel(order='F')],
                    'hdr_problem': _header_consistency(img, d), 'bvals': bvals, 'bvecs': bvecs,
                    'shape': shape, 'idx': idx, 'data': data,
                    'slopes': [float(v) for v in np.asarray(slopes).ravel(order='F')],
                    'inters': [float(v) for v in np.asarray(inters).ravel(order='F')],
                    'scale_shape': tuple(np.asarray(slopes).shape),
                    'labels': [(SHORT.get(k, k), [int(v) for v in vals]) for k, vals in labels.items()],
                    'affine': np.asarray(img.affine, dtype='<f8').tobytes().hex(),
                    'scaled': scaled_vals, 'zooms': [float(z) for z in hdr.get_zooms()],
                }
            except Exception as e:
                return {'err': errname(e)}
    finally:
        for ext in _exts(d):
            try:
                os.unlink(base + ext)
            except OSError:
                pass


def obs_line(o):
    if 'err' in o:
        return o['err']
    labels = '|'.join('%s:[%s]' % (k, ','.join(map(str, v))) for k, v in o['labels']) or '-'
    def rats(vs):
        return '?' if vs is None else ','.join(_rat(v) for v in vs)
    return 'ok shape=[%s] idx=[%s] data=[%s] slope=[%s] inter=[%s] pslope=[%s] pinter=[%s] labels=%s' % (
        ','.join(map(str, o['shape'][2:])), ','.join(map(str, o['idx'])), ','.join(map(str, o['data'])),
        rats(o['slopes']), rats(o['inters']), rats(o['pslopes']), rats(o['pinters']), labels)


def impl_helper(d):
    from nibabel import parrec
    try:
        if d['op'] == 'volnos':
            return '[%s]' % ','.join(str(int(v)) for v in parrec.vol_numbers(d['sl']))
        return '[%s]' % ','.join(str(int(bool(v))) for v in parrec.vol_is_full(d['sl'], d['smax']))
    except Exception as e:
        return errname(e)


def oracle_helper(d, out):
    sl, smax = d['sl'], d['smax']
    vols = [sl[:i].count(s) for i, s in enumerate(sl)]
    if d['op'] == 'volnos':
        want = '[%s]' % ','.join(map(str, vols))
    elif any(not (1 <= s <= smax) for s in sl):
        want = 'ERR:ValueError'
    else:
        full = [all((s, v) in set(zip(sl, vols)) for s in range(1, smax + 1)) for v in vols]
        want = '[%s]' % ','.join(str(int(f)) for f in full)
    return None if out == want else 'helper: %s(%s) = %s, expected %s' % (d['op'], sl, out, want)


def impl_gen(d):
    from nibabel import parrec
    try:
        return '[%s]' % ','.join(str(int(v)) for v in parrec.vol_numbers(list(d['sl'])))
    except Exception as e:
        return errname(e)


def _canon(v):
    """NumPy values -> the plain Python values of the translated fragment (integral floats -> ints)"""
    if isinstance(v, np.ndarray):
        v = v.tolist()
    if isinstance(v, np.generic):
        v = v.item()
    if isinstance(v, dict):
        return {k: _canon(x) for k, x in v.items()}
    if isinstance(v, (list, tuple)):
        return [_canon(x) for x in v]
    if isinstance(v, float) and v == int(v):
        return int(v)
    return v


_PREFIX_FN = {}


def _strict_keys_prefix(parrec):
    """the REAL statements of `_strict_sort_order` up to `keys = ...`, compiled in the module's namespace"""
    import ast
    import inspect
    import textwrap
    key = id(parrec)
    if key not in _PREFIX_FN:
        fn = ast.parse(textwrap.dedent(inspect.getsource(parrec.PARRECHeader._strict_sort_order))).body[0]
        fn = py2lean_c20.prefix_until_assign(fn, 'keys')
        mod = ast.fix_missing_locations(ast.Module(body=[fn], type_ignores=[]))
        ns = {}
        exec(compile(mod, '<_strict_sort_order prefix>', 'exec'), parrec.__dict__, ns)
        _PREFIX_FN[key] = ns[fn.name]
    return _PREFIX_FN[key]


def impl_genm(d):
    import io
    import warnings
    from nibabel import parrec
    m = d['m']
    try:
        with warnings.catch_warnings():
            warnings.simplefilter('ignore')
            if m == 'vol_is_full':
                return py2lean.show_v(_canon(parrec.vol_is_full(list(d['sl']), d['smax'], d['smin'])))
            info, defs = parrec.parse_PAR_header(io.StringIO(par_text(d)))
            if m in ('shape', 'idx', 'labels'):       # need a fully initialised header
                hdr = parrec.PARRECHeader(info, defs, True, bool(d['strict']))
            else:                                     # attribute reads only: no __init__ checks in the way
                hdr = parrec.PARRECHeader.__new__(parrec.PARRECHeader)
                hdr.general_info, hdr.image_defs = info, defs
                hdr.permit_truncated, hdr.strict_sort = True, bool(d['strict'])
            if m == 'n_slices':
                v = hdr._get_n_slices()
            elif m == 'n_vols':
                v = hdr._get_n_vols()
            elif m == 'shape':
                v = hdr._calc_data_shape()
            elif m == 'lax':
                v = hdr._lax_sort_order()
            elif m == 'keys':
                v = _strict_keys_prefix(parrec)(hdr)
            elif m == 'idx':
                v = hdr.get_sorted_slice_indices()
            elif m == 'labels':
                v = hdr.get_volume_labels()
            else:
                v = hdr.get_def(d['field'])
            return py2lean.show_v(_canon(v))
    except Exception as e:
        return errname(e)


def oracle_genm(d, out):
    """independent expectations for the simple quantities; the index lists / labels are judged on the load cases"""
    m = d['m']
    if m == 'vol_is_full':
        sl, lo, hi = d['sl'], d['smin'], d['smax']
        if any(not (lo <= s <= hi) for s in sl):
            want = 'ERR:ValueError'
        else:
            vols = [sl[:i].count(s) for i, s in enumerate(sl)]
            pairs = set(zip(sl, vols))
            want = py2lean.show_v([all((s, v) in pairs for s in range(lo, hi + 1)) for v in vols])
        return None if out == want else 'genm: vol_is_full(%s, %d, %d) = %s, expected %s' % (sl, hi, lo, out, want)
    sl = [r[0] for r in d['recs']]
    S = d['max'][0]
    if m == 'n_slices':
        want = 'i%d' % len(set(sl))
    elif m in ('n_vols', 'shape'):
        if any(not (1 <= s <= S) for s in sl):
            want = 'ERR:ValueError'
        else:
            nv = min(sl.count(s) for s in range(1, S + 1)) if S >= 1 else 0
            if S < 1:
                nv = len(set(sl[:i].count(s) for i, s in enumerate(sl)))
            want = 'i%d' % nv if m == 'n_vols' else \
                py2lean.show_v(list(XY) + [len(set(sl))] + ([nv] if nv > 1 else []))
    elif m == 'def':
        have = {'slice number': 'slice', 'echo number': 'echo', 'diffusion_b_factor': None,
                'diffusion b value number': 'bval' if d['ver'] != 40 else '', 'label type': 'label' if d['ver'] == 42 else '',
                'gradient orientation number': 'grad' if d['ver'] != 40 else ''}.get(d['field'], '')
        if have is None:
            return None
        want = 'N' if have == '' else py2lean.show_v([r[F[have]] for r in d['recs']])
    else:
        return None
    return None if out == want else 'genm: %s = %s, expected %s' % (m, out, want)


def impl(case):
    if case.data.get('op') == 'genm':
        return impl_genm(case.data)
    if case.data.get('op') == 'gen':
        return impl_gen(case.data)
    if case.data.get('op') in ('volnos', 'isfull'):
        return impl_helper(case.data)
    if case.data.get('op') == 'spec':
        pl, hyps = spec_reference(case.data)
        return 'complete=[%s] hyps=%d' % (','.join(map(str, pl)), int(hyps))
    if case.data.get('op') == 'read':
        o = observe_read(case.data)
        case.extra = o
        return o.get('line', o.get('err'))
    o = observe(case.data)
    case.extra = o
    return obs_line(o)


# ------------------------------------------------------------------ oracle

def _expected_scale(d, r):
    """own-record scale factors, computed as the PAR header documents them:
    DV = PV * RS + RI ; FP = DV / (RS * SS)"""
    ri, rs, ss = float(r[F['ri']]), float(r[F['rs']]), float(r[F['ss']])
    if d['scaling'] == 'dv':
        return rs, ri
    return 1.0 / ss, ri / (rs * ss)


def analyse(d):
    """Independent by-label reference: complete / partial label sets of the records of `d`"""
    S = d['max'][0]
    sets = {}
    for r in d['recs']:
        sets.setdefault(_label_tuple(d, r), []).append(r)
    full_range = list(range(1, S + 1))
    complete = {k: sorted(v, key=lambda r: r[0]) for k, v in sets.items()
                if sorted(r[0] for r in v) == full_range}
    partial = {k: v for k, v in sets.items() if k not in complete}
    dup = any(len({r[0] for r in v}) != len(v) for v in sets.values())
    oob = any(not (1 <= r[0] <= S) for r in d['recs'])
    return sets, complete, partial, dup, oob


def _consistent(d):
    """every announced maximum is met and every label set is complete"""
    sets, complete, partial, dup, oob = analyse(d)
    recs = d['recs']
    m = d['max']
    ok = (len({r[0] for r in recs}) == m[0] and len({r[F['echo']] for r in recs}) == m[1] and
          len({r[F['dyn']] for r in recs}) == m[2])
    if d['ver'] != 40:
        ok = ok and len({r[F['bval']] for r in recs}) == m[3] and len({r[F['grad']] for r in recs}) == m[4]
    return ok and not partial and not oob


def expected_records(d):
    """Independent by-label reference: (number of volumes, records in output order) the loader must return;
    (None, None) where the property makes no claim on the content (irregular edge inputs)"""
    sets, complete, partial, dup, oob = analyse(d)
    edge = d.get('edge')
    S = d['max'][0]
    expected = None
    if d['strict'] and not dup and edge in (None, 'missing-volume', 'wrong-max', 'slice-gap'):
        if complete:
            keys = sorted(complete)
            expected = [r for k in keys for r in complete[k]]
            exp_nvol = len(keys)
        else:
            exp_nvol = 0
    elif not d['strict'] and edge in (None, 'missing-volume', 'wrong-max', 'dup-labels', 'nodiff-bvals'):
        # lax order: volume v is made of the v-th occurrence of every slice number, in file order
        occ = {}
        for r in d['recs']:
            occ.setdefault(r[0], []).append(r)
        exp_nvol = min(len(occ.get(s, [])) for s in range(1, S + 1))
        if exp_nvol:
            expected = [occ[s][v] for v in range(exp_nvol) for s in range(1, S + 1)]
    else:
        exp_nvol = None
    return exp_nvol, expected


def _expand(idx, ndim):
    """index tuple with Ellipsis / missing axes filled in (Python reference for the selected positions)"""
    idx = list(idx)
    k = sum(1 for it in idx if it is not Ellipsis)
    fill = [slice(None)] * (ndim - k)
    if Ellipsis in idx:
        i = idx.index(Ellipsis)
        idx = idx[:i] + fill + idx[i + 1:]
    else:
        idx = idx + fill
    return idx


def _axis_positions(it, n):
    return list(range(n)[it]) if isinstance(it, slice) else [range(n)[it]]


def observe_read(d):
    """sliced reads through the proxy: {'err':..} or {'line', 'results', 'whole', 'shape', ...}"""
    import warnings
    _COUNTER[0] += 1
    base = os.path.join(_tmpdir(), 'r%d_%d' % (os.getpid(), _COUNTER[0]))
    try:
        _write_pair(d, base)
        with warnings.catch_warnings():
            warnings.simplefilter('ignore')
            try:
                img = _open_image(d, base)
                hdr = img.header
                shape = tuple(int(v) for v in img.shape)
                whole = np.asarray(img.dataobj)
                raw_whole = np.asarray(img.dataobj.get_unscaled())
                slopes, inters = hdr.get_data_scaling(d['scaling'])
                SL = np.broadcast_to(slopes, shape)
                IN = np.broadcast_to(inters, shape)
            except Exception as e:
                return {'err': errname(e)}
            S = shape[2]
            V = shape[3] if len(shape) > 3 else 1
            K = np.broadcast_to(np.arange(S * V).reshape((1, 1) + shape[2:], order='F'), shape)
            results, texts, raws, slicer_problem = [], [], [], None
            for sl in d['slicers']:
                idx = _to_index(sl)
                try:
                    res = np.asarray(img.dataobj[idx])
                except Exception as e:
                    results.append(errname(e))
                    texts.append(errname(e))
                    raws.append(None)
                    continue
                results.append(res)
                # the same read through img.slicer (spatial axes sliced, not indexed); refusals are its business
                ex_ = _expand(idx, len(shape))
                if slicer_problem is None and all(isinstance(it, slice) for it in ex_[:3]) and res.size:
                    try:
                        sub = np.asarray(img.slicer[idx].dataobj)
                    except Exception:
                        sub = None
                    if sub is not None and (sub.shape != res.shape or not np.array_equal(sub, res)):
                        slicer_problem = 'partial: img.slicer[%s] differs from dataobj[%s]' % (sl, sl)
                raw = None
                if hasattr(img.dataobj, '_get_unscaled'):
                    try:
                        raw = np.asarray(img.dataobj._get_unscaled(idx))
                    except Exception as e:
                        raw = errname(e)
                raws.append(raw)
                if res.size == 0:
                    texts.append('[]')
                    continue
                try:
                    sl_, in_, ki = SL[idx], IN[idx], K[idx]
                    if ki.shape != res.shape:
                        raise ValueError('shape')
                    P = np.rint((res - in_) / sl_)
                    exact = (P.astype(raw_whole.dtype) * sl_ + in_) == res
                    ex = _expand(idx, len(shape))
                    ss = _axis_positions(ex[2], S)
                    vs = _axis_positions(ex[3], V) if len(shape) > 3 else [0]
                    ids = []
                    for v in vs:
                        for s_ in ss:
                            m = ki == s_ + S * v
                            vals = np.unique(P[m]) if m.any() and exact[m].all() else []
                            ids.append(int(vals[0]) if len(vals) == 1 else -1)
                    texts.append('[%s]' % ','.join(map(str, ids)))
                except Exception:
                    texts.append('[?shape=%s]' % (res.shape,))
            return {'line': 'ok r=' + '|'.join(texts), 'results': results, 'raws': raws, 'whole': whole,
                    'raw_whole': raw_whole, 'shape': shape, 'slicer_problem': slicer_problem}
    finally:
        for ext in _exts(d):
            try:
                os.unlink(base + ext)
            except OSError:
                pass


def oracle_read(case, out):
    """a sliced read through the proxy equals the same index applied to the whole array, and to the array
    assembled from the labels"""
    d = case.data
    o = case.extra if case.extra is not None and case.extra.get('line', case.extra.get('err')) == out else observe_read(d)
    if 'err' in o:
        return None                      # loading itself is judged by the load case of the same data set
    whole, raw_whole, shape = o['whole'], o['raw_whole'], o['shape']
    if o.get('slicer_problem'):
        return o['slicer_problem']
    exp_nvol, expected = expected_records(d)
    E = None
    S = d['max'][0]
    if expected is not None and shape[2:] == ((S, exp_nvol) if exp_nvol > 1 else (S,)):
        E = np.empty(shape, dtype=np.float64, order='F')
        Ef = E.reshape(shape[:2] + (-1,), order='F')
        for k, r in enumerate(expected):
            es, ei = _expected_scale(d, r)
            Ef[:, :, k] = np.float64(r[F['payload']]) * np.float64(es) + np.float64(ei)
    for sl, res, raw in zip(d['slicers'], o['results'], o['raws']):
        idx = _to_index(sl)
        try:
            want = whole[idx]
        except Exception:
            want = None
        if want is None:
            if not isinstance(res, str):
                return 'partial: dataobj[%s] returned an array, NumPy indexing of the whole array raises' % (sl,)
            continue
        if isinstance(res, str):
            return 'partial: dataobj[%s] raised %s, the whole array can be indexed like that' % (sl, res)
        if res.shape != want.shape or not np.array_equal(res, want):
            return ('partial: dataobj[%s] differs from np.asarray(dataobj)[%s] (shape %s vs %s)'
                    % (sl, sl, res.shape, want.shape))
        if raw is not None:
            if isinstance(raw, str) or raw.shape != raw_whole[idx].shape or not np.array_equal(raw, raw_whole[idx]):
                return 'partial: unscaled sliced read [%s] differs from get_unscaled()[%s]' % (sl, sl)
        if E is not None:
            we = E[idx]
            if we.shape != res.shape or not np.allclose(res, we, rtol=1e-9, atol=1e-9):
                return 'partial: dataobj[%s] differs from the label-assembled array' % (sl,)
    return None


def oracle(case, out):
    d = case.data
    if d.get('op') == 'read':
        return oracle_read(case, out)
    if d.get('op') == 'spec':
        # instance of truncated_exactly_full_volumes on the implementation: under its hypotheses the strict
        # loader returns exactly the records of the complete label sets, in label order
        pl, hyps = spec_reference(d)
        sets, complete, partial, dup, oob = analyse(d)
        if hyps and not dup and not oob:
            o = observe(dict(d, op='load', strict=1, permit=1, scaling='dv'))
            if 'err' in o:
                return 'theorem-instance: loader raised %s under the hypotheses of truncated_exactly_full_volumes' % o['err']
            if o['data'] != pl:
                return 'theorem-instance: loader kept %s, the complete label sets are %s' % (o['data'], pl)
        return None
    if d.get('op') == 'genm':
        return oracle_genm(d, out)
    if d.get('op') == 'gen':
        sl = d['sl']
        want = '[%s]' % ','.join(str(sl[:i].count(v)) for i, v in enumerate(sl))
        return None if out == want else 'gen: vol_numbers(%s) = %s, expected %s' % (sl, out, want)
    if d.get('op') in ('volnos', 'isfull'):
        return oracle_helper(d, out)
    o = case.extra if case.extra is not None and obs_line(case.extra) == out else observe(d)
    sets, complete, partial, dup, oob = analyse(d)
    edge = d.get('edge')
    by_payload = {r[F['payload']]: r for r in d['recs']}
    S = d['max'][0]
    if 'err' in o:
        if oob:
            return None                               # a slice number outside the announced range is refused
        if not d['permit'] and not _consistent(d) and o['err'] == 'ERR:PARRECError':
            return None                               # truncated/inconsistent recording refused as requested
        if edge in ('dup-labels', 'wrong-max', 'nodiff-bvals') and not d['permit'] and o['err'] == 'ERR:PARRECError':
            return None
        return 'error: loader raised %s on a loadable recording (permit_truncated=%d)' % (o['err'], d['permit'])
    if oob:
        return 'error: slice number outside 1..%d accepted' % S
    if not d['permit'] and not _consistent(d) and edge is None:
        return 'error: truncated recording loaded although permit_truncated=False'
    nvol_out = o['shape'][3] if len(o['shape']) > 3 else 1
    nsl_out = o['shape'][2]
    data = o['data']
    # ---- every output slice is one whole slab of some record, scaled with that record's factors
    if len(data) != nsl_out * nvol_out:
        return 'shape: %d slabs for shape %s' % (len(data), o['shape'])
    if len(o['slopes']) != len(data) or len(o['inters']) != len(data):
        return 'scaling: %d slopes / %d intercepts for %d output slices' % (len(o['slopes']), len(o['inters']), len(data))
    if o['scale_shape'] != (1, 1) + tuple(o['shape'][2:]):
        return 'scaling: scaling arrays have shape %s for data shape %s' % (o['scale_shape'], o['shape'])
    problems = []
    for k, p in enumerate(data):
        r = by_payload.get(p)
        if r is None:
            problems.append('data: output slice %d is not the slab of one record (value %d)' % (k, p))
            break
        es, ei = _expected_scale(d, r)
        if o['slopes'][k] != es or o['inters'][k] != ei:
            problems.append('scaling: output slice %d holds record payload %d but slope/intercept (%r, %r) are not '
                            'its own (%r, %r)' % (k, p, o['slopes'][k], o['inters'][k], es, ei))
            break
        if o['pslopes'] is not None and (len(o['pslopes']) != len(data) or o['pslopes'][k] != es or
                                         o['pinters'][k] != ei):
            problems.append('scaling: the scaling arrays of the array proxy are not the own-record factors at '
                            'output slice %d (payload %d)' % (k, p))
            break
        want = float(np.float64(p) * np.float64(es) + np.float64(ei))
        got = o['scaled'][k]
        if got is None or abs(got - want) > 1e-9 * max(1.0, abs(want)):
            problems.append('scaling: scaled output slice %d is %r, expected %r = %d * %r + %r' % (k, got, want, p, es, ei))
            break
    # ---- expected content
    exp_nvol, expected = expected_records(d)
    if exp_nvol is not None:
        if exp_nvol == 0:
            return ('shape: no complete volume in the recording but an image of shape %s was returned'
                    % (o['shape'],))
        if nvol_out > exp_nvol and nsl_out == S:
            return ('shape: over-count: image has %d slices x %d volumes, the recording holds only %d complete '
                    'volume(s) of %d slices' % (nsl_out, nvol_out, exp_nvol, S))
        if nvol_out != exp_nvol or nsl_out != S:
            return ('shape: image has %d slices x %d volumes, the recording holds %d complete volume(s) of %d slices'
                    % (nsl_out, nvol_out, exp_nvol, S))
        exp_data = [r[F['payload']] for r in expected]
        if data != exp_data:
            k = next(i for i in range(len(data)) if data[i] != exp_data[i])
            return ('data: output slice %d (slice %d of volume %d) holds record payload %d, expected %d'
                    % (k, k % S, k // S, data[k], exp_data[k]))
    if problems:
        return problems[0]
    if o.get('hdr_problem'):
        return o['hdr_problem']
    # ---- b values (diffusion): one per output volume, the b factor of that volume's records
    if d['diffusion'] and expected is not None and exp_nvol > 1 and not dup:
        want_b = [float(bfactor(d['ver'], expected[v * S])) for v in range(exp_nvol)]
        same_within = all(len({bfactor(d['ver'], r) for r in expected[v * S:(v + 1) * S]}) == 1 for v in range(exp_nvol))
        if same_within and o['bvals'] != want_b:
            return 'bvals: get_bvals_bvecs()[0] = %s, the volumes hold b factors %s' % (o['bvals'], want_b)
    # ---- labels: one entry per output volume, the value of the record at slice 1 of that volume;
    #      keys = label fields with more than one value in the data set
    names = ['phase', 'echo'] + (['label'] if d['ver'] == 42 else []) + ['itype', 'dyn', 'seq'] + \
            (['grad', 'bval'] if d['ver'] != 40 else [])
    varying = [n for n in names if len({r[F[n]] for r in d['recs']}) > 1]
    if [k for k, _ in o['labels']] != varying:
        return 'labels: keys %s, expected the varying fields %s' % ([k for k, _ in o['labels']], varying)
    if expected is not None:
        for k, vals in o['labels']:
            want = [expected[v * S][F[k]] for v in range(exp_nvol)]
            if vals != want:
                return 'labels: %s = %s, expected %s' % (k, vals, want)
    # ---- invariance: same observables as the same record set written in label order
    if d['strict'] and not dup and edge is None and d.get('order') != 'canonical-ref':
        ref_d = dict(d, recs=sorted(d['recs'], key=lambda r: (_label_tuple(d, r), r[0])), order='canonical-ref')
        ref = observe(ref_d)
        if 'err' in ref:
            return 'invariance: label-ordered file raises %s, this order loads' % ref['err']
        for name in ('shape', 'data', 'slopes', 'inters', 'pslopes', 'pinters', 'labels', 'affine', 'zooms', 'scaled',
                     'bvals', 'bvecs'):
            if ref[name] != o[name]:
                return 'invariance: %s differs from the load of the same records in label order' % name
    return None


def domain(d):
    """class of a recording w.r.t. the open findings (kept fixed while shrinking, so that a failure of an
    ordinary recording can never be minimised into a known-finding input): (by-label class, by-occurrence
    class, strict, permit)"""
    sets, complete, partial, dup, oob = analyse(d)
    if oob:
        lab = 'irregular'
    elif dup:
        lab = 'dup'
    elif not complete:
        lab = 'none-complete:%d' % min(len(partial), 2)
    else:
        lab = 'multi-partial' if len(partial) >= 2 else 'plain'
    S = d['max'][0]
    occ = 'plain'
    if S < 1 or min(sum(1 for r in d['recs'] if r[0] == s) for s in range(1, S + 1)) == 0:
        occ = 'none-complete'
    return (lab, occ, bool(d.get('strict')), bool(d.get('permit')))


def _global_check_passes(d):
    """every slice number of 1..max_slices occurs equally often (and none outside): what
    vol_is_full(image_defs['slice number'], max_slices) accepts as 'all volumes full'"""
    S = d['max'][0]
    counts = [sum(1 for r in d['recs'] if r[0] == s) for s in range(1, S + 1)]
    return S >= 1 and len(set(counts)) == 1 and counts[0] >= 1 and all(1 <= r[0] <= S for r in d['recs'])


def signature(case, what):
    d = case.data
    what = str(what)
    if d.get('op') == 'genm':
        return 'parrec:genm:' + d.get('m', '')
    if d.get('op') == 'gen':
        return 'parrec:gen:' + d.get('fn', '')
    if d.get('op') in ('volnos', 'isfull'):
        return 'parrec:helper:' + d['op']
    if d.get('op') == 'read':
        return 'parrec:partial-read:strict=%s:%s' % (d.get('strict'), what.split(':')[0])
    if d.get('op') == 'spec':
        return 'parrec:spec:' + what.split(':')[0]
    cat = what.split(':')[0].split()[0] if what else 'none'
    lab, occ, strict, permit = domain(d)
    if permit and cat == 'shape':
        if strict and lab == 'multi-partial' and 'shape: over-count:' in what:
            return 'parrec:truncated-multi-partial-nvols-overcount'
        if 'shape: no complete volume' in what and ((strict and lab.startswith('none-complete')) or
                                                    (not strict and occ == 'none-complete')):
            return 'parrec:truncated-no-complete-volume'
    if (not permit and 'loaded although permit_truncated=False' in what and
            lab in ('multi-partial', 'none-complete:2') and occ == 'plain' and _global_check_passes(d)):
        # exactly: permit_truncated=False, >= 2 partial label sets, and the GLOBAL slice-occurrence test of
        # _truncation_checks (vol_is_full over all slice numbers) sees only full volumes
        return 'parrec:truncation-unnoticed-partial-volumes-cover-all-slices'
    return 'parrec:%s:strict=%s:permit=%s:%s' % (cat, d.get('strict'), d.get('permit'), d.get('scaling'))


def shrink_candidates(case):
    d0 = case.data
    if d0.get('op') == 'gen':
        for i in range(len(d0['sl'])):
            yield mk_gen(d0['sl'][:i] + d0['sl'][i + 1:])
        return
    if d0.get('op') in ('volnos', 'isfull'):
        for i in range(len(d0['sl'])):
            yield mk_helper(d0['op'], d0['smax'], d0['sl'][:i] + d0['sl'][i + 1:])
        return
    if d0.get('op') == 'genm':
        if d0['m'] == 'vol_is_full':
            for i in range(len(d0['sl'])):
                yield mk_genm_full(d0['smax'], d0['smin'], d0['sl'][:i] + d0['sl'][i + 1:])
        else:
            for c in _shrink_raw(case):
                yield mk_genm(dict(d0, recs=c.data['recs']), d0['m'], d0.get('field'))
        return
    if d0.get('op') == 'spec':
        for c in _shrink_raw(case):
            yield mk_spec_case(dict(d0, recs=c.data['recs']))
        return
    if d0.get('op') == 'read':
        if len(d0['slicers']) > 1:
            for i in range(len(d0['slicers'])):
                yield mk_read_case(d0, [d0['slicers'][i]], case.stream)
        dom = domain(d0)
        for c in _shrink_raw(case):
            if domain(c.data) == dom:
                yield mk_read_case(dict(d0, recs=c.data['recs']), d0['slicers'], case.stream)
        return
    dom = domain(d0)
    for c in _shrink_raw(case):
        if domain(c.data) == dom:
            yield c


def _shrink_raw(case):
    d = case.data
    recs = d['recs']
    n = len(recs)
    # drop a whole label set, then single records
    labs = []
    for r in recs:
        t = _label_tuple(d, r)
        if t not in labs:
            labs.append(t)
    for t in labs:
        kept = [r for r in recs if _label_tuple(d, r) != t]
        if kept:
            yield mk_case(dict(d, recs=kept), case.stream)
    for i in range(n):
        if n > 1:
            yield mk_case(dict(d, recs=recs[:i] + recs[i + 1:]), case.stream)
    # simplify scale factors
    if any(r[F['ri']] != 0 or r[F['rs']] != 1 or r[F['ss']] != 1 for r in recs):
        yield mk_case(dict(d, recs=[r[:F['ri']] + [0, 1, 1] + r[F['payload']:] for r in recs]), case.stream)
