"""C17 — GIFTI images round-trip through XML for every encoding
(nibabel/gifti/gifti.py, gifti/parse_gifti_fast.py, gifti/util.py, xmlutils.py, caret.py).

Streams
  spec    : Python semantics the Lean model is stated against (str.isspace; the ORIGINAL iterate-while-removing
            loop of remove_gifti_data_array_by_intent run by CPython itself on plain lists)
  hist    : container histories (add / remove by position / remove by intent / get_arrays_from_intent / agg_data)
  block   : read_data_block on payloads written by an independent encoder (every encoding x endian x order)
  wblock  : bytes _data_tag_element hands to zlib/base64 vs the model's toBytes/toOrder (writer side of the theorem)
  xml     : whole images: to_xml() -> (optional foreign-writer rewrite: BigEndian, pretty printing, CDATA) ->
            GiftiImageParser(buffer_size=...) ; the Lean event machine is driven with the handler calls expat made
  edge    : zero-size arrays (B64BIN: open finding), malformed payloads
  wevents : the writer model: Lean `imgEvents` of an image description == the handler calls expat really makes on
            to_xml() of that image (adjacent character-data calls merged) - ties image_xml_roundtrip to the code
  xml-foreign : valid documents after random structural edits (attributes/elements removed, duplicated, moved, unknown
            elements, stray text) - correspondence only: parser event machine incl. its error paths vs the model
"""
import base64
import itertools
import json
import math
import os
import re
import struct
import warnings
import zlib

import numpy as np

from common import Case, LEAN, errname, write_if_changed

PID = 'C17'
LEAN_TARGETS = ['NibabelModel.Props.C17']
THEOREMS = [
    'Nb.C17.remove_by_intent_is_filter',
    'Nb.C17.remove_by_intent_spec',
    'Nb.C17.orig_remove_skips_adjacent',
    'Nb.C17.removeByIntentOrig_counterexample',
    'Nb.C17.orig_loop_characterisation',
    'Nb.C17.orig_correct_iff_no_adjacent',
    'Nb.C17.select_is_filter',
    'Nb.C17.select_remove_partition',
    'Nb.C17.remove_by_position',
    'Nb.C17.remove_by_position_error',
    'Nb.C17.add_appends',
    'Nb.C17.agg_selects_filter',
    'Nb.C17.agg_tuple_order',
    'Nb.C17.chunking_independent',
    'Nb.C17.rechunk_text_node',
    'Nb.C17.elem_roundtrip',
    'Nb.C17.buffer_roundtrip',
    'Nb.C17.order_roundtrip',
    'Nb.C17.base64_block_roundtrip',
    'Nb.C17.base64_block_roundtrip_gifti',
    'Nb.C17.base64_block_roundtrip_any_memory_order',
    'Nb.C17.writer_bytes_memory_order_independent',
    'Nb.C17.codes_pinned',
    'Nb.C17.intent_forms_agree',
    'Nb.C17.intent_aliases_pinned',
    'Nb.C17.intent_arg_methods',
    'Nb.C17.agg_code_zero_filters',
    'Nb.C17.agg_tuple_args',
    'Nb.C17.image_xml_roundtrip',
    'Nb.C17.image_data_base64',
    'Nb.C17.writer_names_parse_back',
    'Nb.C17.image_xml_roundtrip_gifti',
    'Nb.C17.serialise_depends_on_current_state_only',
    'Nb.C17.history_kth_output',
    'Nb.C17.history_roundtrip',
    'Nb.C17.inplace_edit_reaches_every_holder',
    'Nb.C17.endian_attribute_invisible',
    'Nb.C17.gen_get_arrays_from_intent',
    'Nb.C17.gen_remove_by_intent',
    'Nb.C17.gen_numDA',
]
ASSUMPTIONS = [
    'hand-written Lean model of GiftiImage container methods, GiftiImageParser handlers/flush_chardata and '
    'read_data_block (Model/C17.lean), tied to the code by the differential correspondence run on every case',
    'expat: only the handler-call sequence it delivers is modelled (recorded from the real parser in each case); '
    'contract: the character data of a text node arrives as >=1 chunks whose concatenation is the text',
    'ElementTree escaping/serialisation + expat are external; CONTRACT used by image_xml_roundtrip: parsing the bytes '
    'to_xml() produced delivers the writer\'s element tree in document order (Model/C17 imgEvents) up to chunking of '
    'character data; the contract itself is exercised on every wevents case (model events == recorded handler calls)',
    'base64 and zlib are external codecs with contract decode(encode(b)) = b (theorem hypotheses); the driver '
    'uses an executable base64 decoder and a zlib answer table computed by Python zlib for the case',
    'ASCII number printing (%d, %10.6f) and parsing (np.loadtxt) are external: the driver receives the '
    'token->bit-pattern table computed with Python int()/float()+np.float32 for the case',
    'NumPy dtype/byte-order/reshape semantics are specified by the byte codec and C/F ravel in Model/C17.lean, '
    'validated against NumPy on every block/xml case',
    'Recoder tables enter through Generated/C17Codes.lean, regenerated from the working tree on every run',
]
RULE = ('hist: every intent list over {0 (NONE, the falsy default), POINTSET, TIME_SERIES} up to length 5 (quick) / 6 '
        '(thorough) and over 4 codes one shorter x every single mutating op (remove by each intent, pop at every index in '
        '[-n-1,n]) with all selections/aggregations observed before and after; every intent is asked for BY INTEGER CODE '
        '(0 included), NumPy integer, niistring and label, in single and tuple form (None elements, repeats), arrays of '
        'intent 0 built with and without the constructor default, unknown arguments (KeyError, image untouched); plus '
        'random histories with re-added objects; wevents: random images, writer model vs recorded handler calls; block: dtype{u1,i4,f4} x 1-3 dims '
        'x {ASCII,B64BIN,B64GZ} x {LE,BE} x {row,col}; wblock: in-memory byte order {native,swapped} x memory layout {C,F}; xml: 0-4 arrays x encodings x orders x declared endian x '
        'buffer sizes {default, every size 1..16, 17..1000} (grid: 1,7,64,default) x texts with embedded newlines x in-memory byte order {native,swapped} x {one hop, load->re-save->load} x metadata/labels with XML-special and non-ASCII text x coordsys. '
        'A case is non-trivial when it has >=1 array/op; distinct by its full JSON description.')

PENDING_FINDINGS = [
    {'property': 'C17', 'signature': 'b64bin:zero-size-none-data', 'status': 'open',
     'what': 'zero-size array with Base64Binary: <Data /> is parsed as data=None and read_data_block raises '
             'AttributeError (parse_gifti_fast.py:128)',
     'input': {'op': 'xml', 'arrays': [{'dt': 'int32', 'shape': [0], 'bits': [], 'intent': 1008,
                                        'enc': 'B64BIN', 'ord': 'C', 'endian': 'LittleEndian', 'meta': [],
                                        'cs': None}],
               'meta': [], 'labels': [], 'buf': 0, 'variant': 'plain'}},
]

INTENTS = [1008, 1009, 2001]      # POINTSET, TRIANGLE, TIME_SERIES (the one agg_data stacks)
INTENTS4 = [0, 1008, 1009, 2001]  # + NONE: integer code 0 (falsy), the default intent of GiftiDataArray
DTYPES = {'uint8': ('u', 1), 'int32': ('i', 4), 'float32': ('f', 4)}
ENC_SPEC = {'ASCII': 'ASCII', 'B64BIN': 'Base64Binary', 'B64GZ': 'GZipBase64Binary'}


def _mods():
    import nibabel.gifti.gifti as g
    import nibabel.gifti.parse_gifti_fast as p
    import nibabel.gifti.util as u
    import nibabel.nifti1 as n1
    return g, p, u, n1


# ------------------------------------------------------------------------------------------ regen

def _lstr(s):
    out = []
    for ch in s:
        o = ord(ch)
        if ch in '"\\':
            out.append('\\' + ch)
        elif 32 <= o < 127:
            out.append(ch)
        else:
            out.append('\\u{%x}' % o)
    return '"' + ''.join(out) + '"'


def _alias_table(rec):
    items = [(k, int(v)) for k, v in rec.code.items() if isinstance(k, str)]
    return '[' + ', '.join(f'({_lstr(k)}, {v})' for k, v in items) + ']'


def _name_table(rec, column):
    col = getattr(rec, column)
    codes = sorted(int(c) for c in rec.value_set('code') if isinstance(c, (int, np.integer)))
    return '[' + ', '.join(f'({c}, {_lstr(str(col[c]))})' for c in codes) + ']'


def regen():
    g, p, u, n1 = _mods()
    import sys
    dtinfo = []
    for code in sorted(int(c) for c in n1.data_type_codes.value_set('code')):
        dt = np.dtype(n1.data_type_codes.dtype[code])
        if dt.kind in 'uif' and dt.itemsize in (1, 2, 4, 8):
            dtinfo.append((code, dt.itemsize, dt.kind))
    da = g.GiftiDataArray()
    enc, end, order = u.gifti_encoding_codes, u.gifti_endian_codes, u.array_index_order_codes
    out = ['import NibabelModel.Model.C17',
           '/-! GENERATED by harness/props/c17.py regen() from the working tree (Recoder tables of nifti1.py and',
           '    gifti/util.py, GiftiDataArray() defaults, GIFTI_DTYPES, KIND2FMT) — do not edit; rewritten on every run. -/',
           'namespace Nb.C17.Gen', '',
           'def codes : Codes := {',
           f'  intent := {_alias_table(n1.intent_codes)},',
           '  intentCodes := [' + ', '.join(str(c) for c in sorted(int(k) for k in n1.intent_codes.code
                                                          if isinstance(k, (int, np.integer)) and not isinstance(k, bool))) + '],',
           f'  dtype := {_alias_table(n1.data_type_codes)},',
           '  dtinfo := [' + ', '.join(f"({c}, {s}, '{k}')" for c, s, k in dtinfo) + '],',
           f'  xform := {_alias_table(n1.xform_codes)},',
           f'  order := {_alias_table(order)},',
           f'  encoding := {_alias_table(enc)},',
           f'  endian := {_alias_table(end)},',
           f"  encAscii := {int(enc.code['ASCII'])}, encB64 := {int(enc.code['B64BIN'])}, "
           f"encGz := {int(enc.code['B64GZ'])}, encExt := {int(enc.code['External'])},",
           f"  endBig := {int(end.code['big'])}, endLittle := {int(end.code['little'])},",
           f"  ordRow := {int(order.code['C'])}, ordCol := {int(order.code['F'])},",
           f"  timeSeries := {int(n1.intent_codes.code['NIFTI_INTENT_TIME_SERIES'])},",
           f'  daDefaults := ({int(da.intent)}, {int(da.datatype)}, {int(da.encoding)}, {int(da.endian)}, {int(da.ind_ord)}) }}',
           '',
           '/-- the columns the WRITER emits (gifti.py:368-378, 516-530): code -> string -/',
           'def names : WNames := {',
           f'  intent := {_name_table(n1.intent_codes, "niistring")},',
           f'  dtype := {_name_table(n1.data_type_codes, "niistring")},',
           f'  order := {_name_table(order, "label")},',
           f'  encoding := {_name_table(enc, "specs")},',
           f'  endian := {_name_table(end, "specs")},',
           f'  xform := {_name_table(n1.xform_codes, "niistring")} }}',
           '',
           '/-- data type codes the GIFTI standard allows (gifti.py GIFTI_DTYPES) -/',
           'def giftiDtypes : List Nat := [' + ', '.join(str(int(c)) for c in g.GIFTI_DTYPES) + ']',
           '',
           '/-- byte order of the machine the check runs on (sys.byteorder): what the writer declares -/',
           f'def nativeBig : Bool := {"true" if sys.byteorder == "big" else "false"}',
           '', 'end Nb.C17.Gen', '']
    write_if_changed(os.path.join(LEAN, 'NibabelModel', 'Generated', 'C17Codes.lean'), '\n'.join(out))
    # stage T: the container methods themselves, translated statement by statement from the working tree
    import py2lean
    import py2lean_c17
    G = g.GiftiImage
    hdr = ('/-! GENERATED by harness/props/c17.py regen() from the working tree of nibabel (nibabel/gifti/gifti.py):\n'
           '    `GiftiImage.numDA / get_arrays_from_intent / remove_gifti_data_array_by_intent` translated with\n'
           '    harness/py2lean_c17.py (`self.darrays` = value parameter, `intent_codes.code[..]` = callable parameter,\n'
           '    a data array object = the tuple (id, intent)).  Do not edit: rewritten on every run.  Core Lean only. -/')
    try:
        numda = G.numDA.fget if isinstance(G.__dict__.get('numDA'), property) else G.numDA
        text, _ = py2lean_c17.translate_methods(
            [(numda, 'numDA'), (G.get_arrays_from_intent, 'get_arrays_from_intent'),
             (G.remove_gifti_data_array_by_intent, 'remove_gifti_data_array_by_intent')], 'Nb.Gen.C17F', hdr)
    except (py2lean.Untranslatable, Exception) as e:           # noqa: B014 - the obligation is then broken on purpose
        text = ('import NibabelModel.Basic.PyVal\n' + hdr + '\n-- NOT TRANSLATABLE: ' + str(e).replace('\n', ' ')[:300] +
                '\nnamespace Nb.Gen.C17F\nend Nb.Gen.C17F\n')
    write_if_changed(os.path.join(LEAN, 'NibabelModel', 'Generated', 'C17Funcs.lean'), text)
    return ['Nb.C17.Gen.codes', 'Nb.C17.Gen.giftiDtypes', 'Nb.C17.Gen.names', 'Nb.Gen.C17F.get_arrays_from_intent',
            'Nb.Gen.C17F.remove_gifti_data_array_by_intent', 'Nb.Gen.C17F.numDA']


# ------------------------------------------------------------------------------------------ helpers

def enc_text(s):
    return '.'.join('%x' % ord(c) for c in s) if s else '-'


def hexbytes(b):
    return b.hex() if b else '-'


def lst(xs):
    return '[' + ','.join(str(x) for x in xs) + ']'


UINT = {1: 'u1', 2: 'u2', 4: 'u4', 8: 'u8'}


def arr_from_bits(dt, shape, bits):
    kind, w = DTYPES[dt]
    a = np.array(bits, dtype='<' + UINT[w]).view(np.dtype(dt).newbyteorder('<'))
    return a.reshape(shape).astype(np.dtype(dt), copy=False)


def bits_of(arr):
    """bit patterns of the elements in C order, independent of the array's byte order / memory layout"""
    arr = np.asarray(arr)
    w = arr.dtype.itemsize
    bo = arr.dtype.byteorder
    if bo == '|' or bo == '=':
        bo = '<' if np.little_endian else '>'
    raw = arr.tobytes('C')
    return [int(x) for x in np.frombuffer(raw, dtype=np.dtype(UINT[w]).newbyteorder(bo))]


def float_token_bits(tok):
    try:
        v = np.float32(float(tok))
    except (ValueError, OverflowError):
        return None
    return int(np.array(v, dtype='<f4').view('<u4'))


# ------------------------------------------------------------------------------------------ hist

# The harness's OWN table of the standard NIfTI intent names it uses (not read from nibabel): code -> (niistring,
# label).  Code 0 (NIFTI_INTENT_NONE) is the default intent of GiftiDataArray and is falsy as a Python int.
ALIAS = {0: ('NIFTI_INTENT_NONE', 'none'), 1002: ('NIFTI_INTENT_LABEL', 'label'),
         1008: ('NIFTI_INTENT_POINTSET', 'pointset'), 1009: ('NIFTI_INTENT_TRIANGLE', 'triangle'),
         2001: ('NIFTI_INTENT_TIME_SERIES', 'time series'), 2005: ('NIFTI_INTENT_SHAPE', 'shape')}
ALIAS_CODE = {n: c for c, names in ALIAS.items() for n in names}
BAD_ARGS = [1, 1000, 999999, 'NIFTI_INTENT_BOGUS', 'POINTSET', 'pointset ', '', 'None', '0']


def norm_arg(op, i=1):
    """intent argument of an op as int | str | None.  Legacy shape [k, code, kind]: kind 1 = niistring, 2 = label."""
    a = op[i]
    if isinstance(a, int) and not isinstance(a, bool) and len(op) > i + 1 and op[i + 1] in (1, 2) and op[0] in 'rgA':
        return ALIAS[a][op[i + 1] - 1]
    return a


def py_arg(a):
    """the Python object handed to nibabel: ['np', n] = a NumPy integer scalar"""
    if isinstance(a, list):
        return np.int32(a[1])
    return a


def arg_tok(a):
    if a is None:
        return '_'
    if isinstance(a, list):
        return str(a[1])
    if isinstance(a, str):
        return 's:' + enc_text(a)
    return str(int(a))


def ref_code(a):
    """reference resolution of an intent argument: code, or None = KeyError"""
    if isinstance(a, list):
        a = a[1]
    if isinstance(a, str):
        return ALIAS_CODE.get(a)
    return a if a in ALIAS or a in _all_int_codes() else None


_INT_CODES = None


def _all_int_codes():
    # the integer codes of the NIfTI-1 standard (nifti1.h): statistics 2..24, 1001..1011, 2001..2018 subset, 3000..3009
    global _INT_CODES
    if _INT_CODES is None:
        _INT_CODES = set([0] + list(range(2, 25)) + list(range(1001, 1012)) + list(range(2001, 2010)) +
                         [2016, 2017, 2018] + [3000, 3001, 3002, 3003, 3004, 3006, 3007, 3008, 3009])
    return _INT_CODES


def hist_line(ops):
    toks = []
    for op in ops:
        k = op[0]
        if k == 'a':
            toks.append(f'a{op[1]}:' + ('d' if op[2] is None else arg_tok(op[2])))
        elif k == 'p':
            toks.append(f'p{op[1]}')
        elif k in 'rg':
            toks.append(k + arg_tok(norm_arg(op)))
        elif k == 'A':
            toks.append('A' + arg_tok(norm_arg(op)))
        elif k == 'T':
            toks.append('T' + (','.join(arg_tok(a) for a in op[1]) if op[1] else '-'))
        else:
            raise ValueError(op)
    return 'C17 hist ' + ' '.join(toks) if toks else 'C17 hist'


def mk_hist(ops, stream='hist'):
    ops = [list(o) for o in ops]
    data = {'op': 'hist', 'ops': ops}
    key = ('hist', json.dumps(ops)) if ops else None
    return Case(hist_line(ops), data, key, stream)


def _agg_token(res, objs_by_id, problems):
    """classify what agg_data returned; arrays are identified by content (np.full(.., id)) and identity"""
    def ident(a):
        i = int(np.asarray(a).ravel()[0])
        if i in objs_by_id and objs_by_id[i].data is not a:
            problems.append(f'agg_data returned a different array object than darray {i}.data')
        return i
    if isinstance(res, tuple):
        return 'T' + lst([ident(a) for a in res])
    res = np.asarray(res)
    if res.ndim == 2:
        return 'S' + lst([int(x) for x in res[0]])
    return 'O%d' % ident(res)


def impl_hist(case):
    g, p, u, n1 = _mods()
    img = g.GiftiImage()
    objs, ident = {}, {}
    outs, problems = [], []
    for op in case.data['ops']:
        k = op[0]
        res = '-'
        try:
            if k == 'a':
                if op[1] not in objs:
                    data = np.full((2,), op[1], dtype=np.int32)
                    d = g.GiftiDataArray(data) if op[2] is None else g.GiftiDataArray(data, intent=py_arg(op[2]))
                    objs[op[1]] = d
                    ident[id(d)] = op[1]
                img.add_gifti_data_array(objs[op[1]])
            elif k == 'p':
                try:
                    img.remove_gifti_data_array(op[1])
                except IndexError:
                    res = 'ERR:IndexError'
            elif k == 'r':
                img.remove_gifti_data_array_by_intent(py_arg(norm_arg(op)))
            elif k == 'g':
                sel = img.get_arrays_from_intent(py_arg(norm_arg(op)))
                res = 'g' + lst([ident.get(id(d), -1) for d in sel])
            elif k == 'A':
                a = norm_arg(op)
                r = img.agg_data() if a is None else img.agg_data(py_arg(a))
                res = _agg_token(r, objs, problems)
            elif k == 'T':
                r = img.agg_data(tuple(py_arg(a) for a in op[1]))
                if not isinstance(r, tuple):
                    problems.append(f'agg_data(tuple) returned {type(r).__name__}')
                res = 'T(' + '+'.join(_agg_token(x, objs, problems) for x in r) + ')'
        except KeyError:
            res = 'ERR:KeyError'
        state = [ident.get(id(d), -1) for d in img.darrays]
        if img.numDA != len(state):
            problems.append('numDA != len(darrays)')
        outs.append(lst(state) + '/' + res)
    case.extra = {'problems': problems}
    return ' '.join(outs) if outs else '-'


def ref_hist(ops):
    """independent list reference of what the container operations must do"""
    ref, intent_of, outs = [], {}, []
    ts = 2001

    def agg(sel):
        ids = [i for i in sel]
        if ids and all(intent_of[i] == ts for i in ids):
            return 'S' + lst(ids)
        if len(ids) == 1:
            return 'O%d' % ids[0]
        return 'T' + lst(ids)

    def agg_arg(a):
        if a is None:
            return agg(ref)
        c = ref_code(a)
        if c is None:
            raise KeyError(a)
        return agg([i for i in ref if intent_of[i] == c])
    for op in ops:
        k, res = op[0], '-'
        try:
            if k == 'a':
                if op[1] not in intent_of:
                    c = 0 if op[2] is None else ref_code(op[2])
                    if c is None:
                        raise KeyError(op[2])
                    intent_of[op[1]] = c
                ref.append(op[1])
            elif k == 'p':
                n, i = len(ref), op[1]
                if -n <= i < n:
                    del ref[i]
                else:
                    res = 'ERR:IndexError'
            elif k in 'rg':
                c = ref_code(norm_arg(op))
                if c is None:
                    raise KeyError(op[1])
                if k == 'r':
                    ref = [i for i in ref if intent_of[i] != c]
                else:
                    res = 'g' + lst([i for i in ref if intent_of[i] == c])
            elif k == 'A':
                res = agg_arg(norm_arg(op))
            elif k == 'T':
                res = 'T(' + '+'.join([agg_arg(a) for a in op[1]]) + ')'
        except KeyError:
            res = 'ERR:KeyError'
        outs.append(lst(ref) + '/' + res)
    return outs


def oracle_hist(case, out):
    want = ref_hist(case.data['ops'])
    got = out.split(' ') if out != '-' else []
    if out.startswith('ERR'):
        return f'container history raised {out}'
    for i, (w, g_) in enumerate(itertools.zip_longest(want, got)):
        if w != g_:
            op = case.data['ops'][i] if i < len(case.data['ops']) else None
            return f'[hist:{op[0] if op else "?"}] after op #{i} {op}: darrays/result {g_} but the named arrays are {w}'
    pr = (case.extra or {}).get('problems')
    if pr:
        return '[hist:identity] ' + pr[0]
    return None


# ------------------------------------------------------------------------------------------ spec

class _Obj:
    __slots__ = ('id', 'intent')

    def __init__(self, i, it):
        self.id, self.intent = i, it


def mk_orig(ids, intents, it):
    line = f'C17 orig {",".join(map(str, ids)) or "-"} {",".join(map(str, intents)) or "-"} {it}'
    return Case(line, {'op': 'orig', 'ids': list(ids), 'intents': list(intents), 'it': it},
                ('orig', tuple(ids), tuple(intents), it), 'spec')


def impl_orig(case):
    d = case.data
    objs = {}
    l = []
    for i, it in zip(d['ids'], d['intents']):
        objs.setdefault(i, _Obj(i, it))
        l.append(objs[i])
    full = list(l)
    it = d['it']
    # the ORIGINAL code of remove_gifti_data_array_by_intent, verbatim, executed by CPython
    for dele in l:
        if dele.intent == it:
            l.remove(dele)
    # reference for "skip the element after each removal"
    skip, i = [], 0
    while i < len(full):
        if full[i].intent == it:
            if i + 1 < len(full):
                skip.append(full[i + 1])
            i += 2
        else:
            skip.append(full[i])
            i += 1
    nodup = len(set(d['ids'])) == len(d['ids'])
    return (lst([o.id for o in l]) + ' ' + (lst([o.id for o in skip]) if nodup else 'dup') + ' ' +
            lst([o.id for o in full if o.intent != it]))


def impl_space(case):
    return lst([n for n in range(0x3100) if chr(n).isspace()])


# ------------------------------------------------------------------------------------------ block

def encode_payload(arr, enc, endian, order, layout='nib', fmt_kind=None):
    """independent writer of a <Data> payload (NumPy tobytes + Python base64/zlib; own text layout).
    `fmt_kind`: kind of the DECLARED data type when it differs from the array's (the ASCII writer formats the values
    the array holds with the format of the declared kind, without casting)"""
    if enc == 'ASCII':
        fmt = '%d' if (fmt_kind or arr.dtype.kind) in 'ui' else '%10.6f'
        if layout == 'col' or arr.ndim == 1:
            return '\n'.join(fmt % x for x in arr.ravel(order).tolist())
        a2 = arr if arr.ndim == 2 else (arr.reshape((-1, arr.shape[-1]), order='C') if order == 'C'
                                       else arr.reshape((arr.shape[0], -1), order='F'))
        return '\n'.join(' '.join(fmt % x for x in row) for row in a2.tolist())
    bo = '>' if endian == 'BigEndian' else '<'
    raw = arr.astype(arr.dtype.newbyteorder(bo)).tobytes(order)
    if enc == 'B64GZ':
        raw = zlib.compress(raw)
    return base64.b64encode(raw).decode('ascii')


def tables_for(text, enc=None, dt=None):
    """answers of the external functions for one payload: zlib (Z) and float32 token parsing (F).  Without hints
    they are computed for whatever the text could be (the declared encoding may be missing or wrong)."""
    toks = []
    if text is None:
        return toks
    if enc in (None, 'B64GZ'):
        try:
            dec = base64.b64decode(text.encode('ascii'))
            toks.append('Z~' + hexbytes(dec) + '~' + hexbytes(zlib.decompress(dec)))
        except Exception:
            pass
    if enc in (None, 'ASCII') and dt in (None, 'float32'):
        words = text.split()
        if len(words) <= 2000:
            for t in sorted(set(words)):
                if t.strip('0123456789+-.eE') and t.lower().lstrip('+-') not in ('nan', 'inf', 'infinity'):
                    continue
                b = float_token_bits(t)
                if b is not None:
                    toks.append('F~' + enc_text(t) + '~' + str(b))
    return toks


def mk_block(d, stream='block'):
    g, p, u, n1 = _mods()
    d = dict(d)
    d['op'] = 'block'
    arr = arr_from_bits(d['dt'], d['shape'], d['bits'])
    text = d.get('text')
    if text is None and not d.get('none'):
        text = encode_payload(arr, d['enc'], d['endian'], d['ord'], d.get('layout', 'nib'))
        mut = d.get('mut')
        if mut == 'ws' and d['enc'] != 'ASCII':
            text = '\n'.join(text[i:i + 5] for i in range(0, len(text), 5)) + ' \n'
        elif mut == 'trunc':
            text = text[:-4] if d['enc'] != 'ASCII' else '\n'.join(text.split('\n')[:-1])
    enc_code = d.get('enc_code', int(u.gifti_encoding_codes.code[d['enc']]))
    end_code = d.get('end_code', int(u.gifti_endian_codes.code[d['endian']]))
    dt_code = int(n1.data_type_codes.code[d['dt']])
    ord_code = int(u.array_index_order_codes.code[d['ord']])
    dims = d.get('dims', d['shape'])
    line = ' '.join(['C17 block', str(enc_code), str(end_code), str(dt_code), ','.join(map(str, dims)) or '-',
                     str(ord_code), '_' if text is None else enc_text(text)] + tables_for(text, d['enc'], d['dt']))
    c = Case(line, d, ('block', json.dumps(d, sort_keys=True)), stream)
    c.extra = {'text': text, 'codes': (enc_code, end_code, dt_code, ord_code), 'dims': dims}
    return c


def impl_block(case):
    g, p, u, n1 = _mods()
    if not case.extra or 'codes' not in case.extra:
        case.extra = mk_block(case.data).extra
    enc_code, end_code, dt_code, ord_code = case.extra['codes']
    da = g.GiftiDataArray()
    da.encoding, da.endian, da.datatype, da.ind_ord = enc_code, end_code, dt_code, ord_code
    da.dims = list(case.extra['dims'])
    try:
        with warnings.catch_warnings():
            warnings.simplefilter('ignore')
            arr = p.read_data_block(da, None, case.extra['text'], True)
    except Exception:
        return 'ERR'
    return 'ok ' + lst(arr.shape) + ':' + lst(bits_of(arr))


def oracle_block(case, out):
    d = case.data
    good = not d.get('mut') in ('trunc',) and 'enc_code' not in d and 'end_code' not in d and 'dims' not in d \
        and 'text' not in d and not d.get('none')
    if good:
        want = 'ok ' + lst(d['shape']) + ':' + lst(d['bits'])
        if d['enc'] == 'ASCII' and d['dt'] == 'float32':
            return _ascii_float_check(d, out, '[block]')
        if out != want:
            return (f'[block] read_data_block({d["enc"]},{d["endian"]},{d["ord"]},{d["dt"]},{d["shape"]}) '
                    f'returned {out[:120]} for a payload encoding {want[:120]}')
        return None
    if not out.startswith('ERR'):
        return f'[block] malformed payload ({d.get("mut") or "bad attrs"}) was decoded to {out[:100]} instead of being refused'
    return None


def _ascii_float_check(d, out, tag, hops=1):
    if not out.startswith('ok ' + lst(d['shape']) + ':'):
        return f'{tag} ASCII float array {d["shape"]}: got {out[:100]}'
    got = json.loads(out.split(':', 1)[1])
    if len(got) != len(d['bits']):
        return f'{tag} ASCII float array: {len(got)} elements, expected {len(d["bits"])}'
    gv = np.array(got, dtype='<u4').view('<f4').astype(np.float64)
    wv = np.array(d['bits'], dtype='<u4').view('<f4').astype(np.float64)
    tol = hops * (0.5e-6 * (1 + 1e-9) + np.spacing(np.abs(wv).astype(np.float32)).astype(np.float64))
    bad = np.nonzero(~(np.abs(gv - wv) <= tol))[0]
    if len(bad):
        i = int(bad[0])
        return f'{tag} ASCII float element {i}: read {gv[i]!r}, written {wv[i]!r} (beyond the printed precision)'
    return None


# ------------------------------------------------------------------------------------------ wblock (writer side)

def mem_array(dt, shape, bits, swap=False, fmem=False):
    """the array as the user / a previous load holds it: values from `bits`, memory byte order native or swapped
    (value-preserving `astype(dtype.newbyteorder())`), C- or F-contiguous"""
    arr = arr_from_bits(dt, shape, bits)
    if swap:
        arr = arr.astype(arr.dtype.newbyteorder())
    if fmem:
        arr = np.asfortranarray(arr)
    return arr


def mem_is_big(arr):
    bo = arr.dtype.byteorder
    if bo in '|=':
        return not np.little_endian
    return bo == '>'


def mk_wblock(d):
    import sys
    d = dict(d)
    d['op'] = 'wblock'
    w = DTYPES[d['dt']][1]
    arr = mem_array(d['dt'], d['shape'], d['bits'], d.get('swap', False), d.get('fmem', False))
    line = ' '.join(['C17 wblock', str(w), '1' if sys.byteorder == 'big' else '0', '1' if mem_is_big(arr) else '0',
                     '1' if d['ord'] == 'F' else '0', ','.join(map(str, d['shape'])) or '-',
                     hexbytes(arr.tobytes('C'))])      # element bytes exactly as they lie in memory, C order
    return Case(line, d, ('wblock', json.dumps(d, sort_keys=True)), 'wblock')


def impl_wblock(case):
    g, p, u, n1 = _mods()
    d = case.data
    arr = mem_array(d['dt'], d['shape'], d['bits'], d.get('swap', False), d.get('fmem', False))
    try:
        el = g._data_tag_element(arr, u.gifti_encoding_codes.specs[d['enc']], np.dtype(d['dt']),
                                 u.array_index_order_codes.code[d['ord']])
        raw = base64.b64decode((el.text or '').encode('ascii'))       # external decoders undo the external encoders
        if d['enc'] == 'B64GZ':
            raw = zlib.decompress(raw)
    except Exception as e:
        return errname(e)
    return hexbytes(raw)


def oracle_wblock(case, out):
    d = case.data
    w = DTYPES[d['dt']][1]
    # independent of NumPy casting: the machine-order bytes of the bit patterns, in the requested index order
    idx = np.arange(len(d['bits'])).reshape(d['shape']).ravel(d['ord'])
    import sys
    want = hexbytes(b''.join(int(d['bits'][i]).to_bytes(w, sys.byteorder) for i in idx))
    if out != want:
        return (f'[write] _data_tag_element({d["enc"]},{d["ord"]},{d["dt"]},{d["shape"]},memory '
                f'{"swapped" if d.get("swap") else "native"}) wrote bytes {out[:80]} expected {want[:80]}')
    return None


# ------------------------------------------------------------------------------------------ xml

class XCase(Case):
    """xml case: the protocol line carries the handler calls expat actually made, so it is computed by running
    the real writer + parser (lazily; `impl` caches the trace)."""

    def __init__(self, data, key, stream):
        self._line = None
        self._trace = None
        super().__init__(None, data, key, stream)

    @property
    def line(self):
        if self._trace is None:
            run_xml(self)
        return self._line

    @line.setter
    def line(self, v):
        self._line = v


def build_image(d):
    g, p, u, n1 = _mods()
    lt = g.GiftiLabelTable()
    for key, text, rgba in d['labels']:
        lab = g.GiftiLabel(key, *(rgba if rgba else (None, None, None, None)))
        lab.label = text
        lt.labels.append(lab)
    img = g.GiftiImage(meta=g.GiftiMetaData([tuple(kv) for kv in d['meta']]), labeltable=lt,
                       version=d.get('version', '1.0'))
    for a in d['arrays']:
        arr = mem_array(a['dt'], a['shape'], a['bits'], a.get('swap', False), bool(a.get('fmem')))
        cs = None
        if a['cs'] is not None:
            cs = g.GiftiCoordSystem(a['cs']['ds'], a['cs']['xs'], np.array(a['cs']['xf'], dtype=np.float64))
        da = g.GiftiDataArray(arr, intent=a['intent'], datatype=a['dt'], encoding=a['enc'], endian='little',
                              coordsys=cs, ordering=a['ord'], meta=g.GiftiMetaData([tuple(kv) for kv in a['meta']]))
        img.add_gifti_data_array(da)
    return img


_DA_RE = re.compile(rb'<DataArray [^>]*>')


def foreign_rewrite(xml, d):
    """what another GIFTI writer may legitimately emit for the same image: BigEndian payloads, pretty printing,
    CDATA sections / character references in the payload.  Done on the bytes to_xml() produced."""
    out, pos = [], 0
    tags = list(_DA_RE.finditer(xml))
    for a, m in zip(d['arrays'], tags):
        s = xml.index(b'<Data>', m.end()) + 6 if b'<Data>' in xml[m.end():] else None
        nxt = xml.find(b'<DataArray ', m.end())
        if s is None or (nxt != -1 and s > nxt):
            continue                      # <Data /> : nothing to rewrite
        e = xml.index(b'</Data>', s)
        payload = xml[s:e].decode('ascii')
        tag = xml[m.start():m.end()]
        if a['endian'] == 'BigEndian':
            tag = tag.replace(b'Endian="LittleEndian"', b'Endian="BigEndian"')
            if a['enc'] != 'ASCII':
                raw = base64.b64decode(payload)
                if a['enc'] == 'B64GZ':
                    raw = zlib.decompress(raw)
                w = DTYPES[a['dt']][1]
                raw = np.frombuffer(raw, dtype='<' + UINT[w]).astype('>' + UINT[w]).tobytes()
                if a['enc'] == 'B64GZ':
                    raw = zlib.compress(raw)
                payload = base64.b64encode(raw).decode('ascii')
        pb = payload.encode('ascii')
        if d['variant'] == 'cdata' and len(pb) >= 3 and a['enc'] != 'ASCII':
            h = len(pb) // 2
            pb = b'&#%d;' % pb[0] + b'<![CDATA[' + pb[1:h] + b']]><![CDATA[' + pb[h:] + b']]>'
        out.append(xml[pos:m.start()] + tag + xml[m.end():s] + pb)
        pos = e
    out.append(xml[pos:])
    xml = b''.join(out)
    if d['variant'] == 'pretty':
        head, sep, body = xml.partition(b'<GIFTI ')
        xml = head + sep + body.replace(b'><', b'>\n   <')
    return xml


def run_xml(case):
    """real writer -> rewrite -> real parser with the three handlers recorded"""
    g, p, u, n1 = _mods()
    d = case.data
    tr = {'stage': 'write', 'events': [], 'img': None, 'exc': None, 'xml': None}
    case._trace = tr
    case._line = None
    try:
        with warnings.catch_warnings():
            warnings.simplefilter('ignore')
            if d['op'] == 'xmlraw':
                xml = d['xml'].encode('utf-8')
            else:
                xml = build_image(d).to_xml()
                xml = foreign_rewrite(xml, d)
            tr['xml'] = xml
            tr['stage'] = 'parse'
            events = tr['events']

            class Rec(p.GiftiImageParser):
                def StartElementHandler(self, name, attrs):
                    events.append(('S', name, dict(attrs)))
                    return super().StartElementHandler(name, attrs)

                def EndElementHandler(self, name):
                    events.append(('E', name))
                    return super().EndElementHandler(name)

                def CharacterDataHandler(self, data):
                    events.append(('C', data))
                    return super().CharacterDataHandler(data)
            try:
                if d['buf']:
                    parser = Rec(buffer_size=d['buf'])
                    parser.parse(string=xml)
                    tr['img'] = parser.img
                else:
                    old = g.GiftiImage.parser
                    g.GiftiImage.parser = Rec
                    try:
                        tr['img'] = g.GiftiImage.from_bytes(xml)
                    finally:
                        g.GiftiImage.parser = old
                if d.get('hops', 1) == 2 and tr['img'] is not None:
                    # load -> re-save -> load: the arrays now in memory are what read_data_block produced
                    # (non-native '>' dtypes for documents that declared BigEndian)
                    tr['img1'] = tr['img']
                    tr['stage'] = 'resave'
                    xml2 = tr['img1'].to_xml()
                    tr['xml2'] = xml2
                    tr['stage'] = 'parse2'
                    del events[:]
                    parser = Rec(buffer_size=d['buf']) if d['buf'] else Rec()
                    parser.parse(string=xml2)
                    tr['img'] = parser.img
                tr['stage'] = 'done'
            except Exception as e:
                tr['exc'] = e
    except Exception as e:
        tr['exc'] = e
    if tr['stage'] != 'write':
        case._line = events_line(tr['events'])
    return tr


WRITE_TO_TAGS = ('Name', 'Value', 'Label', 'DataSpace', 'TransformedSpace', 'MatrixData', 'Data')


def events_line(events):
    """protocol line for the recorded handler calls + the answers of the external functions (zlib, float parsing)
    for every text the parser will hand to read_data_block (= text pending at a tag while write_to == 'Data')"""
    toks, tables = [], []
    write_to, buf, alltext = None, [], []
    for ev in events:
        if ev[0] == 'C':
            toks.append('C~' + enc_text(ev[1]))
            alltext.append(ev[1])
            buf.append(ev[1])
            continue
        if write_to == 'Data' and buf:
            for t in tables_for(''.join(buf)):
                if t not in tables:
                    tables.append(t)
        buf = []
        alltext.append(' ')
        if ev[0] == 'S':
            toks.append('~'.join(['S', ev[1]] + [f'{k}={enc_text(v)}' for k, v in ev[2].items()]))
            if ev[1] in WRITE_TO_TAGS:
                write_to = ev[1]
        else:
            toks.append('E~' + ev[1])
            if ev[1] in WRITE_TO_TAGS:
                write_to = None
    if any(ev[0] == 'S' and ev[1] == 'MatrixData' for ev in events):
        # float64 answers for every number-like token of the document (np.loadtxt of <MatrixData>)
        for t in sorted(set(''.join(alltext).split())):
            try:
                v = float(t)
            except ValueError:
                continue
            if not t.strip('0123456789+-.eE') or t.lower().lstrip('+-') in ('nan', 'inf', 'infinity'):
                tables.append('G~' + enc_text(t) + '~' + str(struct.unpack('<Q', struct.pack('<d', v))[0]))
    return ' '.join(['C17 parse'] + toks + tables)


def show_md(md):
    return '{' + ','.join(enc_text(k) + ':' + enc_text(v) for k, v in md.items()) + '}'


def canon_img(img):
    if img is None:
        return 'none'

    def ot(x):
        return '_' if x is None else enc_text(x)

    def of(x):
        return '_' if x is None else enc_text(repr(float(x)))
    parts = ['ok', enc_text(img.version), 'M' + show_md(img.meta),
             'L[' + ','.join('N' if l is None else ':'.join(
                 [str(int(l.key)), ot(getattr(l, 'label', None)), of(l.red), of(l.green), of(l.blue), of(l.alpha)])
                 for l in img.labeltable.labels) + ']']
    for da in img.darrays:
        cs = da.coordsys
        xf = np.asarray(cs.xform, dtype=np.float64)
        fields = [str(int(da.intent)), str(int(da.datatype)), str(int(da.ind_ord)), str(int(da.encoding)),
                  str(int(da.endian)), lst(da.dims), enc_text(da.ext_fname), str(int(da.ext_offset)),
                  '_' if da.meta is None else show_md(da.meta), str(int(cs.dataspace)), str(int(cs.xformspace))]
        parts.append('DA(' + ','.join(fields) + ' ' + lst(xf.shape) + ':' +
                     lst(int(x) for x in np.ascontiguousarray(xf, dtype='<f8').ravel().view('<u8')) + ' ' +
                     ('_' if da.data is None else lst(da.data.shape) + ':' + lst(bits_of(da.data))) + ')')
    return ' '.join(parts)


def impl_xml(case):
    tr = run_xml(case)
    case.extra = tr
    if tr['stage'] == 'write':
        return 'ERR:write:' + type(tr['exc']).__name__
    if tr['exc'] is not None:
        return 'ERR'
    return canon_img(tr['img'])


def oracle_xml(case, out):
    g, p, u, n1 = _mods()
    d = case.data
    tr = case.extra or {}
    if tr.get('exc') is not None:
        e = tr['exc']
        return f'[error:{tr["stage"]}] {type(e).__name__}: {str(e)[:120]} for a valid image'
    if d.get('hops', 1) == 2:
        bad = _check_image(d, tr.get('img1'), 1)
        if bad:
            return bad
        bad = _check_image(d, tr.get('img'), 2)
        return bad and bad.replace(']', ':resaved]', 1)
    return _check_image(d, tr.get('img'), 1)


def _check_image(d, img, hop):
    """the image read back after `hop` write/parse hops has the written content"""
    g, p, u, n1 = _mods()
    if img is None:
        return '[error:parse] parser produced no image'
    if str(img.version) != d.get('version', '1.0'):
        return f'[version] {img.version!r}'
    if list(img.meta.items()) != [tuple(kv) for kv in d['meta']]:
        return f'[meta:global] read {list(img.meta.items())!r}, written {d["meta"]!r}'
    labs = img.labeltable.labels
    if len(labs) != len(d['labels']):
        return f'[labels] {len(labs)} labels read, {len(d["labels"])} written'
    for l, (key, text, rgba) in zip(labs, d['labels']):
        got = (l.key, getattr(l, 'label', None), [l.red, l.green, l.blue, l.alpha])
        if got != (key, text, rgba if rgba else [None] * 4):
            return f'[labels] read {got!r}, written {(key, text, rgba)!r}'
    if img.numDA != len(d['arrays']) or len(img.darrays) != len(d['arrays']):
        return f'[data:count] {len(img.darrays)} arrays read, {len(d["arrays"])} written'
    for i, (da, a) in enumerate(zip(img.darrays, d['arrays'])):
        where = (f'array {i} ({a["dt"]} {a["shape"]} {a["enc"]} {a["ord"]} {a["endian"]} buf={d["buf"]} {d["variant"]}'
                 f'{" memory-swapped" if a.get("swap") else ""} hop {hop})')
        if da.data is None:
            return f'[data:missing] {where}: no data'
        if da.data.dtype.kind != DTYPES[a['dt']][0] or da.data.dtype.itemsize != DTYPES[a['dt']][1]:
            return f'[data:dtype] {where}: dtype {da.data.dtype}'
        if list(da.data.shape) != a['shape'] or list(da.dims) != a['shape']:
            return f'[data:shape] {where}: shape {da.data.shape} dims {da.dims}'
        got = bits_of(da.data)
        if a['enc'] == 'ASCII' and a['dt'] == 'float32':
            bad = _ascii_float_check({'shape': a['shape'], 'bits': a['bits']},
                                     'ok ' + lst(a['shape']) + ':' + lst(got), '[data:values] ' + where, hop)
            if bad:
                return bad
        elif got != a['bits']:
            k = next(j for j, (x, y) in enumerate(zip(got, a['bits'])) if x != y)
            return f'[data:values] {where}: element {k} has bits {got[k]:#x}, written {a["bits"][k]:#x}'
        if int(da.intent) != a['intent']:
            return f'[intent] {where}: {da.intent}'
        if u.array_index_order_codes.npcode[da.ind_ord] != a['ord']:
            return f'[ind_ord] {where}: {da.ind_ord}'
        if u.gifti_encoding_codes.label[da.encoding] != a['enc']:
            return f'[encoding] {where}: {da.encoding}'
        if da.meta is None or list(da.meta.items()) != [tuple(kv) for kv in a['meta']]:
            return f'[meta:array] {where}: read {None if da.meta is None else list(da.meta.items())!r}, written {a["meta"]!r}'
        cs = a['cs'] or {'ds': 0, 'xs': 0, 'xf': np.identity(4).tolist()}
        if da.coordsys is None or (int(da.coordsys.dataspace), int(da.coordsys.xformspace)) != (cs['ds'], cs['xs']):
            return f'[coordsys:spaces] {where}'
        xf = np.asarray(da.coordsys.xform, dtype=np.float64)
        want = np.array(cs['xf'], dtype=np.float64)
        if xf.shape != want.shape or not np.all(np.abs(xf - want) <= hop * (0.5e-6 * (1 + 1e-9) + 4 * np.spacing(np.abs(want)))):
            return f'[coordsys:xform] {where}: read {xf.tolist()!r}, written {want.tolist()!r}'
    return None


def mk_xml(d, stream='xml'):
    d = dict(d)
    d['op'] = 'xml'
    key = ('xml', json.dumps(d, sort_keys=True)) if d['arrays'] or d['meta'] or d['labels'] else None
    return XCase(d, key, stream)


def mk_raw(xml_text, buf, stream='xml-foreign'):
    d = {'op': 'xmlraw', 'xml': xml_text, 'buf': buf}
    return XCase(d, ('xmlraw', xml_text, buf), stream)


JUNK = ['', ' ', '\n  ', 'junk', 'AB', ' x ', '7', '1 2\n3 4', 'NIFTI_XFORM_TALAIRACH', 'é<&']
GIFTI_TAGS = ['MetaData', 'MD', 'Name', 'Value', 'LabelTable', 'Label', 'DataArray',
              'CoordinateSystemTransformMatrix', 'DataSpace', 'TransformedSpace', 'MatrixData', 'Data', 'Foo']


def mutate_tree(rng, xml_bytes):
    """a document another tool (or a bug elsewhere) might produce: random structural edits of a valid one"""
    import copy
    import xml.etree.ElementTree as ET
    root = ET.fromstring(xml_bytes)
    for _ in range(rng.choice([1, 1, 2, 3])):
        elems = list(root.iter())
        parents = {c: p_ for p_ in elems for c in p_}
        e = rng.choice(elems)
        r = rng.random()
        if r < 0.2 and e.attrib:
            del e.attrib[rng.choice(sorted(e.attrib))]
        elif r < 0.35 and e is not root:
            parents[e].remove(e)
        elif r < 0.45 and e is not root:
            par = parents[e]
            par.insert(list(par).index(e), copy.deepcopy(e))
        elif r < 0.6 and e is not root:
            tgt = rng.choice([x for x in elems if x is not e and e not in x.iter() or x is root] or [root])
            if tgt not in e.iter():
                parents[e].remove(e)
                tgt.insert(rng.randrange(len(tgt) + 1), e)
        elif r < 0.75:
            new = ET.Element(rng.choice(GIFTI_TAGS))
            if rng.random() < 0.5:
                new.text = rng.choice(JUNK if new.tag not in ('Data',) else ['', 'AAAA', '1 2'])
            new.tail = rng.choice(['', '', ' ', 'tail'])
            if new.tag == 'Label' and rng.random() < 0.7:
                new.attrib[rng.choice(['Key', 'Index'])] = str(rng.randrange(9))
            e.insert(rng.randrange(len(e) + 1), new)
        elif r < 0.87:
            if e.tag == 'Data':
                e.text = (e.text or '') + rng.choice(['', ' ', '\n', 'A', 'AB', 'ABCD'])
            else:
                e.text = rng.choice(JUNK)
        elif e is not root:
            e.tail = rng.choice(JUNK)
    if root.tag != 'GIFTI' or any(x.tag == 'GIFTI' for x in list(root.iter())[1:]):
        return None        # the model assumes a single GIFTI element (documented)
    return ET.tostring(root, encoding='unicode')


def foreign_cases(rng, tier):
    out = []
    n = {'quick': 1500, 'thorough': 25000, 'search': 500}[tier]
    tries = 0
    while len(out) < n and tries < 3 * n:
        tries += 1
        d = rand_image(rng)
        d['op'] = 'xml'
        d['variant'] = rng.choice(['plain', 'pretty'])
        for a in d['arrays']:
            a['endian'] = 'LittleEndian'
        try:
            with warnings.catch_warnings():
                warnings.simplefilter('ignore')
                xml = foreign_rewrite(build_image(d).to_xml(), d)
            txt = mutate_tree(rng, xml)
        except Exception:
            continue
        if txt is not None:
            out.append(mk_raw(txt, rand_buf(rng)))
    return out


# ------------------------------------------------------------------------------------------ wevents (writer model)

STD_DT = {'uint8': 2, 'int32': 8, 'float32': 16}          # NIfTI data type codes (nifti1.h), typed here independently
STD_ENC = {'ASCII': 1, 'B64BIN': 2, 'B64GZ': 3}           # gifti.dtd / gifti/util.py
STD_ORD = {'C': 1, 'F': 2}


def pair_tok(kv):
    return enc_text(kv[0]) + ':' + enc_text(kv[1])


def wevents_line(d):
    """description of the image for the Lean writer model `imgEvents`: everything that is logic (element order,
    attribute order, names from the regenerated tables, str(int)) is left to the model; the external texts
    (Base64/ASCII payload, '%10.6f' matrix text, str(float) colours) are computed here, independently of nibabel"""
    import sys
    toks = ['C17 wevents', 'V~' + enc_text(d.get('version', '1.0')), '~'.join(['M'] + [pair_tok(kv) for kv in d['meta']])]
    for key, text, rgba in d['labels']:
        cols = ['_' if (rgba is None or x is None) else enc_text(str(float(x))) for x in (rgba or [None] * 4)]
        toks.append('~'.join(['L', str(key), enc_text(text)] + cols))
    for a in d['arrays']:
        arr = arr_from_bits(a['dt'], a['shape'], a['bits'])
        cs = a['cs'] or {'ds': 0, 'xs': 0, 'xf': np.identity(4).tolist()}
        mtext = '\n'.join(' '.join('%10.6f' % x for x in row) for row in cs['xf'])
        dtext = encode_payload(arr, a['enc'], 'BigEndian' if sys.byteorder == 'big' else 'LittleEndian', a['ord'])
        toks.append('~'.join(['D', str(a['intent']), str(STD_DT[a['dt']]), str(STD_ORD[a['ord']]), str(STD_ENC[a['enc']]),
                              '1' if sys.byteorder == 'big' else '2', ','.join(map(str, a['shape'])) or '-', '-', '0',
                              str(cs['ds']), str(cs['xs']), enc_text(mtext), enc_text(dtext)] +
                             [pair_tok(kv) for kv in a['meta']]))
    return ' '.join(toks)


def mk_wevents(d):
    d = dict(d)
    d['op'] = 'wevents'
    return Case(wevents_line(d), d, ('wevents', json.dumps(d, sort_keys=True)), 'wevents')


def impl_wevents(case):
    """the handler calls expat makes on the bytes to_xml() produced, adjacent character-data calls merged"""
    d = dict(case.data, variant='plain', hops=1, op='xml')
    x = XCase(d, None, 'wevents')
    tr = run_xml(x)
    if tr['stage'] == 'write':
        return 'ERR:write:' + type(tr['exc']).__name__
    if tr['exc'] is not None:
        return 'ERR:' + type(tr['exc']).__name__
    toks, pend = [], []
    for ev in tr['events']:
        if ev[0] == 'C':
            pend.append(ev[1])
            continue
        if pend:
            toks.append('C~' + enc_text(''.join(pend)))
            pend = []
        if ev[0] == 'S':
            toks.append('~'.join(['S', ev[1]] + [f'{k}={enc_text(v)}' for k, v in ev[2].items()]))
        else:
            toks.append('E~' + ev[1])
    return ' '.join(toks)


def wevents_cases(rng, tier):
    out = []
    for _ in range({'quick': 500, 'thorough': 6000, 'search': 500}[tier]):
        d = rand_image(rng)
        d.pop('variant', None)
        d.pop('hops', None)
        for a in d['arrays']:
            a['endian'] = 'LittleEndian'
            a['swap'] = False
        out.append(mk_wevents(d))
    return out


# ------------------------------------------------------------------------------------------ whist (object histories)
# ONE image object: serialise -> mutate -> serialise ... ; the k-th output must describe the image as it is at the
# k-th serialisation.  An op list is interpreted three times: on nibabel objects (impl_whist), on plain dicts
# (_WRef: the independent reference; also supplies the external <Data> texts) and by the Lean object model (runLit).

STD_END = {'big': 1, 'little': 2}
DT_OF_CODE = {2: 'uint8', 8: 'int32', 16: 'float32'}
ENC_OF_CODE = {1: 'ASCII', 2: 'B64BIN', 3: 'B64GZ'}
ORD_OF_CODE = {1: 'C', 2: 'F'}
SER_METHODS = ['to_xml', 'to_bytes', 'to_filename', 'save', 'to_stream', 'to_file_map', 'to_file_map_default']
SER_MODES = [None, None, 'strict', 'compat', 'force']
WIDEN = {'uint8': ['int32', 'float32'], 'int32': ['float32'], 'float32': []}


def conv_bits(bits, mdt, dt):
    """bit patterns of the values of a `mdt` array converted BY VALUE to `dt` (only exact / IEEE-rounded widenings)"""
    if mdt == dt:
        return list(bits)
    if mdt == 'uint8' and dt == 'int32':
        return list(bits)
    vals = bits if mdt == 'uint8' else [b - 2 ** 32 if b >= 2 ** 31 else b for b in bits]
    if dt == 'float32' and mdt in ('uint8', 'int32'):
        return [f32_bits(float(v)) for v in vals]
    raise ValueError('unsupported conversion %s -> %s' % (mdt, dt))


def native_endian():
    import sys
    return 'BigEndian' if sys.byteorder == 'big' else 'LittleEndian'


class _WRef:
    """reference interpreter of a whist op list on plain Python values (no nibabel)"""

    def __init__(self):
        self.version = '1.0'
        self.gmeta = {}
        self.labels = []
        self.darrays = []
        self.das = {}
        self.nds = {}
        self.snaps = []       # image descriptions at the serialisation points
        self.q = {}           # external <Data> texts needed by the Lean model

    def _da(self, pos):
        if not 0 <= pos < len(self.darrays):
            raise IndexError(pos)
        return self.das[self.darrays[pos]]

    def describe(self):
        arrays = []
        for i in self.darrays:
            da = self.das[i]
            nd = self.nds[da['nd']]
            cb = conv_bits(nd['bits'], nd['dt'], da['dt'])
            if int(np.prod(da['dims'])) != len(cb):
                raise ValueError('dims inconsistent with data')
            arr = arr_from_bits(da['dt'], nd['shape'], cb)
            exp = arr.ravel(order=da['ord']).reshape(da['dims'], order=da['ord'])
            arrays.append({'dt': da['dt'], 'shape': list(da['dims']), 'bits': bits_of(exp), 'intent': da['intent'],
                           'enc': da['enc'], 'ord': da['ord'], 'endian': native_endian(),
                           'meta': [[k, v] for k, v in da['meta'].items()], 'cs': da['cs'],
                           'ext': [da['fname'], da['off']]})
            key = (STD_ENC[da['enc']], STD_DT[da['dt']], STD_ORD[da['ord']], STD_DT[nd['dt']], tuple(nd['shape']),
                   tuple(nd['bits']))
            if key not in self.q:
                if da['enc'] == 'ASCII':        # values as held in memory, format of the declared kind
                    self.q[key] = encode_payload(arr_from_bits(nd['dt'], nd['shape'], nd['bits']), 'ASCII', native_endian(),
                                                 da['ord'], fmt_kind=DTYPES[da['dt']][0])
                else:
                    self.q[key] = encode_payload(arr, da['enc'], native_endian(), da['ord'])
        return {'arrays': arrays, 'meta': [[k, v] for k, v in self.gmeta.items()],
                'labels': [[l['key'], l['text'], l['rgba']] for l in self.labels], 'buf': 0, 'variant': 'plain',
                'version': self.version}

    def reloadable(self):
        return all(self.nds[self.das[i]['nd']]['dt'] == self.das[i]['dt'] for i in self.darrays)

    def apply(self, op):
        k = op[0]
        if k == 'X':
            self.snaps.append(self.describe())
        elif k == 'Y':
            if not self.reloadable():
                raise ValueError('reload with a cast pending')
            d = self.describe()
            self.snaps.append(d)
            base = op[2]
            new = []
            for p, (i, a) in enumerate(zip(self.darrays, d['arrays'])):
                self.nds[base + p] = {'dt': a['dt'], 'shape': list(a['shape']), 'bits': list(a['bits'])}
                self.das[base + p] = dict(self.das[i], nd=base + p, meta=dict(self.das[i]['meta']), endian=STD_END['little'])
                new.append(base + p)
            self.darrays = new
            self.gmeta = dict(self.gmeta)
            self.labels = [dict(l) for l in self.labels]
        elif k == 'V':
            self.version = op[1]
        elif k == 'G':
            self.gmeta[op[1]] = op[2]
        elif k == 'Gd':
            del self.gmeta[op[1]]
        elif k == 'Gn':
            self.gmeta = dict((a, b) for a, b in op[1])
        elif k == 'L':
            self.labels.append({'key': op[1], 'text': op[2], 'rgba': op[3]})
        elif k == 'Ls':
            self.labels[op[1]].update(key=op[2], text=op[3], rgba=op[4])
        elif k == 'Ld':
            del self.labels[op[1]]
        elif k == 'Ln':
            self.labels = []
        elif k == 'N':
            self.nds[op[1]] = {'dt': op[2], 'shape': list(op[3]), 'bits': list(op[4])}
        elif k == 'O':
            f = op[3]
            nd = self.nds[op[2]]
            self.das[op[1]] = {'nd': op[2], 'intent': f['intent'], 'dt': f['dt'] or nd['dt'], 'enc': f['enc'],
                               'ord': f['ord'], 'endian': f['endian'], 'dims': list(nd['shape']),
                               'meta': dict((a, b) for a, b in f['meta']), 'cs': f['cs'], 'fname': f['fname'],
                               'off': f['off']}
        elif k == 'A':
            if op[1] not in self.das:
                raise KeyError(op[1])
            self.darrays.append(op[1])
        elif k == 'P':
            n, i = len(self.darrays), op[1]
            if not -n <= i < n:
                raise IndexError(i)
            del self.darrays[i]
        elif k == 'R':
            self.darrays = [i for i in self.darrays if self.das[i]['intent'] != op[1]]
        elif k == 'E':
            nd = self.nds[self._da(op[1])['nd']]
            if len(op[3]) != len(nd['bits']):
                raise ValueError('size')
            nd['bits'] = list(op[3])
        elif k == 'F':
            da, f, v = self._da(op[1]), op[2], op[3]
            if f == 'intent':
                da['intent'] = v
            elif f == 'datatype':
                da['dt'] = v
            elif f == 'ord':
                da['ord'] = v
            elif f == 'enc':
                da['enc'] = v
            elif f == 'endian':
                da['endian'] = v
            elif f == 'dims':
                da['dims'] = list(v)
            elif f == 'ext':
                da['fname'], da['off'] = v
            elif f == 'mset':
                da['meta'][v[0]] = v[1]
            elif f == 'mdel':
                del da['meta'][v]
            elif f == 'mnew':
                da['meta'] = dict((a, b) for a, b in v)
            elif f == 'cs':
                da['cs'] = v
            elif f == 'data':
                if v not in self.nds:
                    raise KeyError(v)
                da['nd'] = v
            else:
                raise ValueError(op)
        else:
            raise ValueError(op)


def _mtext(cs):
    cs = cs or {'ds': 0, 'xs': 0, 'xf': np.identity(4).tolist()}
    return cs['ds'], cs['xs'], '\n'.join(' '.join('%10.6f' % x for x in row) for row in cs['xf'])


def _label_tok(key, text, rgba):
    cols = ['_' if (rgba is None or x is None) else enc_text(str(float(x))) for x in (rgba or [None] * 4)]
    return [str(key), enc_text(text)] + cols


def whist_line(ops):
    ref = _WRef()
    toks = ['C17 whist']
    for op in ops:
        k = op[0]
        # E ops: the in-place edit is applied to the ndarray the data array at `pos` holds NOW
        ref.apply(op)
        if k == 'X':
            toks.append('X')
        elif k == 'Y':
            toks += ['X', 'Y~%d' % op[2]]
        elif k == 'V':
            toks.append('V~' + enc_text(op[1]))
        elif k == 'G':
            toks.append('G~' + pair_tok(op[1:3]))
        elif k == 'Gd':
            toks.append('Gd~' + enc_text(op[1]))
        elif k == 'Gn':
            toks.append('~'.join(['Gn'] + [pair_tok(kv) for kv in op[1]]))
        elif k == 'L':
            toks.append('~'.join(['L'] + _label_tok(*op[1:4])))
        elif k == 'Ls':
            toks.append('~'.join(['Ls', str(op[1])] + _label_tok(*op[2:5])))
        elif k == 'Ld':
            toks.append('Ld~%d' % op[1])
        elif k == 'Ln':
            toks.append('Ln')
        elif k == 'N':
            toks.append('~'.join(['N', str(op[1]), str(STD_DT[op[2]]), ','.join(map(str, op[3])) or '-',
                                  ','.join(map(str, op[4])) or '-']))
        elif k == 'O':
            f = op[3]
            da = ref.das[op[1]]
            ds, xs, mt = _mtext(f['cs'])
            toks.append('~'.join(['O', str(op[1]), str(op[2]), str(f['intent']), str(STD_DT[da['dt']]), str(STD_ORD[f['ord']]),
                                  str(STD_ENC[f['enc']]), str(STD_END[f['endian']]), ','.join(map(str, da['dims'])) or '-',
                                  enc_text(f['fname']), str(f['off']), str(ds), str(xs), enc_text(mt)] +
                                 [pair_tok(kv) for kv in f['meta']]))
        elif k == 'A':
            toks.append('A~%d' % op[1])
        elif k == 'P':
            toks.append('P~%d' % op[1])
        elif k == 'R':
            toks.append('R~%d' % op[1])
        elif k == 'E':
            toks.append('E~%d~%s' % (op[1], ','.join(map(str, op[3])) or '-'))
        elif k == 'F':
            f, v = op[2], op[3]
            head = ['F', str(op[1])]
            if f == 'intent':
                toks.append('~'.join(head + ['intent', str(v)]))
            elif f == 'datatype':
                toks.append('~'.join(head + ['datatype', str(STD_DT[v])]))
            elif f == 'ord':
                toks.append('~'.join(head + ['ord', str(STD_ORD[v])]))
            elif f == 'enc':
                toks.append('~'.join(head + ['enc', str(STD_ENC[v])]))
            elif f == 'endian':
                toks.append('~'.join(head + ['endian', str(v)]))
            elif f == 'dims':
                toks.append('~'.join(head + ['dims', ','.join(map(str, v)) or '-']))
            elif f == 'ext':
                toks.append('~'.join(head + ['ext', enc_text(v[0]), str(v[1])]))
            elif f == 'mset':
                toks.append('~'.join(head + ['mset', pair_tok(v)]))
            elif f == 'mdel':
                toks.append('~'.join(head + ['mdel', enc_text(v)]))
            elif f == 'mnew':
                toks.append('~'.join(head + ['mnew'] + [pair_tok(kv) for kv in v]))
            elif f == 'cs':
                ds, xs, mt = _mtext(v)
                toks.append('~'.join(head + ['cs', str(ds), str(xs), enc_text(mt)]))
            elif f == 'data':
                toks.append('~'.join(head + ['data', str(v)]))
    for (enc, dt, ord_, mdt, shape, bits), text in ref.q.items():
        toks.append('~'.join(['Q', str(enc), str(dt), str(ord_), str(mdt), ','.join(map(str, shape)) or '-',
                              ','.join(map(str, bits)) or '-', enc_text(text)]))
    return ' '.join(toks), ref


def mk_whist(ops, stream='whist'):
    ops = json.loads(json.dumps(ops))
    line, ref = whist_line(ops)
    nser = len(ref.snaps)
    c = Case(line, {'op': 'whist', 'ops': ops, 'stream': stream}, ('whist', json.dumps(ops)) if nser else None, stream)
    c.extra = {'snaps': ref.snaps}
    return c


def events_tokens(xml_bytes):
    """handler calls expat makes on a document (default buffer), adjacent character-data calls merged"""
    g, p, u, n1 = _mods()
    events = []

    class Rec(p.GiftiImageParser):
        def StartElementHandler(self, name, attrs):
            events.append(('S', name, dict(attrs)))
            return super().StartElementHandler(name, attrs)

        def EndElementHandler(self, name):
            events.append(('E', name))
            return super().EndElementHandler(name)

        def CharacterDataHandler(self, data):
            events.append(('C', data))
            return super().CharacterDataHandler(data)
    parser = Rec()
    parser.parse(string=xml_bytes)
    toks, pend = [], []
    for ev in events:
        if ev[0] == 'C':
            pend.append(ev[1])
            continue
        if pend:
            toks.append('C~' + enc_text(''.join(pend)))
            pend = []
        if ev[0] == 'S':
            toks.append('~'.join(['S', ev[1]] + [f'{k}={enc_text(v)}' for k, v in ev[2].items()]))
        else:
            toks.append('E~' + ev[1])
    return ' '.join(toks), parser.img


def _set_label(g, lab, key, text, rgba):
    lab.key = key
    lab.label = text
    lab.red, lab.green, lab.blue, lab.alpha = rgba if rgba else (None, None, None, None)


def _mk_cs(g, cs):
    if cs is None:
        return None
    return g.GiftiCoordSystem(cs['ds'], cs['xs'], np.array(cs['xf'], dtype=np.float64))


def impl_whist(case):
    import io
    import tempfile
    import nibabel as nib
    g, p, u, n1 = _mods()
    img = g.GiftiImage()
    nds, das = {}, {}
    outs, parsed = [], []
    case.extra = dict(case.extra or {})
    if 'snaps' not in case.extra:
        case.extra['snaps'] = whist_line(case.data['ops'])[1].snaps
    case.extra.update(parsed=parsed, exc=None)
    nfile = 0
    with tempfile.TemporaryDirectory() as tmp, warnings.catch_warnings():
        warnings.simplefilter('ignore')
        try:
            for n, op in enumerate(case.data['ops']):
                k = op[0]
                case.extra['at'] = n
                if k in ('X', 'Y'):
                    method, mode = (op[1], op[2]) if k == 'X' else (op[1], None)
                    kw = {} if mode is None else {'mode': mode}
                    if method == 'to_xml':
                        out = img.to_xml(**kw)
                    elif method == 'to_bytes':
                        out = img.to_bytes(**kw)
                    elif method == 'to_stream':
                        bio = io.BytesIO()
                        img.to_stream(bio, **kw)
                        out = bio.getvalue()
                    elif method in ('to_filename', 'save', 'to_file_map', 'to_file_map_default'):
                        nfile += 1
                        path = os.path.join(tmp, 'h%d.gii' % nfile)
                        if method == 'to_filename':
                            img.to_filename(path, **kw)
                        elif method == 'save':
                            nib.save(img, path, **kw)
                        elif method == 'to_file_map':
                            img.to_file_map(g.GiftiImage.filespec_to_file_map(path), **kw)
                        else:
                            img.file_map = g.GiftiImage.filespec_to_file_map(path)
                            img.to_file_map(**kw)
                        with open(path, 'rb') as f:
                            out = f.read()
                    else:
                        raise ValueError(op)
                    toks, pimg = events_tokens(out)
                    outs.append(toks)
                    parsed.append(pimg)
                    if k == 'Y':
                        img = g.GiftiImage.from_bytes(out) if method != 'to_filename' else nib.load(path)
                        base = op[2]
                        for pos, da in enumerate(img.darrays):
                            das[base + pos] = da
                            nds[base + pos] = da.data
                elif k == 'V':
                    img.version = op[1]
                elif k == 'G':
                    img.meta[op[1]] = op[2]
                elif k == 'Gd':
                    del img.meta[op[1]]
                elif k == 'Gn':
                    img.meta = g.GiftiMetaData([tuple(kv) for kv in op[1]])
                elif k == 'L':
                    lab = g.GiftiLabel()
                    _set_label(g, lab, op[1], op[2], op[3])
                    img.labeltable.labels.append(lab)
                elif k == 'Ls':
                    _set_label(g, img.labeltable.labels[op[1]], op[2], op[3], op[4])
                elif k == 'Ld':
                    del img.labeltable.labels[op[1]]
                elif k == 'Ln':
                    img.labeltable = g.GiftiLabelTable()
                elif k == 'N':
                    flags = op[5] if len(op) > 5 else {}
                    nds[op[1]] = mem_array(op[2], op[3], op[4], bool(flags.get('swap')), bool(flags.get('fmem')))
                elif k == 'O':
                    f = op[3]
                    das[op[1]] = g.GiftiDataArray(nds[op[2]], intent=f['intent'], datatype=f['dt'], encoding=f['enc'],
                                                  endian=f['endian'], coordsys=_mk_cs(g, f['cs']), ordering=f['ord'],
                                                  meta=g.GiftiMetaData([tuple(kv) for kv in f['meta']]),
                                                  ext_fname=f['fname'], ext_offset=f['off'])
                elif k == 'A':
                    img.add_gifti_data_array(das[op[1]])
                elif k == 'P':
                    img.remove_gifti_data_array(op[1])
                elif k == 'R':
                    img.remove_gifti_data_array_by_intent(op[1])
                elif k == 'E':
                    data = img.darrays[op[1]].data
                    new = arr_from_bits(str(np.dtype(data.dtype.newbyteorder('=')).name), list(data.shape), op[3])
                    how = op[2]
                    if how == 'all':
                        data[...] = new
                    elif how == 'copyto':
                        np.copyto(data, new)
                    elif how == 'flat':
                        data.flat[:] = new.ravel()
                    else:                       # element by element, only where the value changes
                        old = bits_of(data)
                        for j, (a, b) in enumerate(zip(old, op[3])):
                            if a != b:
                                idx = np.unravel_index(j, data.shape)
                                data[idx] = new[idx]
                elif k == 'F':
                    da, f, v = img.darrays[op[1]], op[2], op[3]
                    if f == 'intent':
                        da.intent = v
                    elif f == 'datatype':
                        da.datatype = STD_DT[v]
                    elif f == 'ord':
                        da.ind_ord = STD_ORD[v]
                    elif f == 'enc':
                        da.encoding = STD_ENC[v]
                    elif f == 'endian':
                        da.endian = v
                    elif f == 'dims':
                        da.dims = list(v)
                    elif f == 'ext':
                        da.ext_fname, da.ext_offset = v
                    elif f == 'mset':
                        da.meta[v[0]] = v[1]
                    elif f == 'mdel':
                        del da.meta[v]
                    elif f == 'mnew':
                        da.meta = g.GiftiMetaData([tuple(kv) for kv in v])
                    elif f == 'cs':
                        if len(op) > 4 and op[4] and v is not None:       # edit the coordinate system object in place
                            da.coordsys.dataspace, da.coordsys.xformspace = v['ds'], v['xs']
                            da.coordsys.xform[...] = np.array(v['xf'], dtype=np.float64)
                        else:
                            da.coordsys = _mk_cs(g, v) or g.GiftiCoordSystem()
                    elif f == 'data':
                        da.data = nds[v]
                    else:
                        raise ValueError(op)
                else:
                    raise ValueError(op)
        except Exception as e:
            case.extra['exc'] = e
            return 'ERR:' + type(e).__name__
    return ' | '.join(outs) if outs else '-'


def oracle_whist(case, out):
    ex = case.extra or {}
    if ex.get('exc') is not None:
        e = ex['exc']
        op = case.data['ops'][ex.get('at', 0)]
        return f'[whist:error] op #{ex.get("at")} {op[:3]}: {type(e).__name__}: {str(e)[:100]} in a valid history'
    snaps, parsed = ex.get('snaps', []), ex.get('parsed', [])
    if len(snaps) != len(parsed):
        return f'[whist:count] {len(parsed)} outputs for {len(snaps)} serialisations'
    sers = [i for i, op in enumerate(case.data['ops']) if op[0] in ('X', 'Y')]
    for k, (d, img) in enumerate(zip(snaps, parsed)):
        bad = _check_image(d, img, 1)
        if bad is None:
            for i, (da, a) in enumerate(zip(img.darrays, d['arrays'])):
                if [da.ext_fname, int(da.ext_offset)] != a['ext']:
                    bad = f'[ext] array {i}: read {[da.ext_fname, da.ext_offset]!r}, written {a["ext"]!r}'
                    break
        if bad:
            tag, rest = bad.split(']', 1)
            return (f'{tag}:history] output #{k} (op #{sers[k]} {case.data["ops"][sers[k]][1]}) does not describe the image '
                    f'as it is at that serialisation:{rest}')
    return None


W_INTENTS = [0, 1002, 1008, 1009, 2001, 2005]


def rand_bits_w(rng, dt, n, exact):
    if dt == 'float32' and exact:
        return [f32_bits(rng.randrange(-6400, 6400) / 64.0) for _ in range(n)]
    return rand_bits(rng, dt, n, True)


def rand_shape_w(rng):
    nd = rng.choice([1, 1, 2, 2, 3])
    shape = [rng.choice([1, 2, 3, 4]) for _ in range(nd)]
    return shape


def _rand_ser(rng, had_file):
    m = rng.choice(SER_METHODS)
    return ['X', m, rng.choice(SER_MODES)]


def _same_size_dims(rng, shape):
    n = int(np.prod(shape))
    cands = [[n], [1, n], [n, 1]] + [[a, n // a] for a in range(2, n) if n % a == 0] + [list(shape) + [1]]
    return rng.choice(cands)


class _WGen:
    """random VALID history; keeps a _WRef to know what exists"""

    def __init__(self, rng, exact):
        self.rng, self.exact = rng, exact
        self.ref = _WRef()
        self.ops = []
        self.nid = 0

    def emit(self, op):
        self.ref.apply(op)
        self.ops.append(op)

    def fresh(self):
        self.nid += 1
        return self.nid

    def new_nd(self, dt=None, shape=None):
        rng = self.rng
        dt = dt or rng.choice(['uint8', 'int32', 'float32'])
        shape = shape or rand_shape_w(rng)
        i = self.fresh()
        self.emit(['N', i, dt, shape, rand_bits_w(rng, dt, int(np.prod(shape)), self.exact),
                   {'swap': rng.random() < 0.25, 'fmem': rng.random() < 0.25}])
        return i

    def new_da(self, nd=None):
        rng = self.rng
        nd = nd if nd is not None else self.new_nd()
        i = self.fresh()
        mdt = self.ref.nds[nd]['dt']
        decl = None
        if not self.exact and rng.random() < 0.15 and WIDEN[mdt]:
            decl = rng.choice(WIDEN[mdt])
        elif rng.random() < 0.5:
            decl = mdt
        self.emit(['O', i, nd, {'intent': rng.choice(W_INTENTS), 'dt': decl, 'enc': rng.choice(['ASCII', 'B64BIN', 'B64GZ']),
                                'ord': rng.choice('CF'), 'endian': rng.choice(['big', 'little']), 'meta': rand_meta(rng),
                                'cs': rand_cs(rng), 'fname': rng.choice(['', '', 'ext.dat', 'a&b<c>.bin']),
                                'off': rng.choice([0, 0, 7, 4096])}])
        return i

    def mutate(self):
        rng, ref = self.rng, self.ref
        n = len(ref.darrays)
        r = rng.random()
        if n and r < 0.30:
            pos = rng.randrange(n)
            nd = ref.nds[ref._da(pos)['nd']]
            bits = list(nd['bits'])
            new = rand_bits_w(rng, nd['dt'], len(bits), self.exact)
            if rng.random() < 0.5 and len(bits) > 1:         # change only some elements
                keep = rng.randrange(len(bits))
                new = [b if j != keep else x for j, (b, x) in enumerate(zip(bits, new))] if rng.random() < 0.5 else \
                      [x if j != keep else b for j, (b, x) in enumerate(zip(bits, new))]
            if new == bits:
                b = new[0]
                if nd['dt'] == 'uint8':
                    new[0] = (b + 1) % 256
                elif nd['dt'] == 'int32':
                    new[0] = (b + 1) % 2 ** 32
                else:
                    new[0] = f32_bits(0.5) if b != f32_bits(0.5) else f32_bits(1.5)
            self.emit(['E', pos, rng.choice(['all', 'copyto', 'flat', 'elem']), new])
        elif n and r < 0.38:
            pos = rng.randrange(n)
            da = ref._da(pos)
            old = ref.nds[da['nd']]
            if rng.random() < 0.6:
                nd = self.new_nd(old['dt'], list(old['shape']))          # same dtype and shape, new object
                self.emit(['F', pos, 'data', nd])
            else:
                dt = rng.choice([d for d in DTYPES if da['dt'] == d or da['dt'] in WIDEN[d]]) if not self.exact else da['dt']
                nd = self.new_nd(dt)
                self.emit(['F', pos, 'data', nd])
                self.emit(['F', pos, 'dims', list(ref.nds[nd]['shape'])])
        elif n and r < 0.46:
            self.emit(['F', rng.randrange(n), 'enc', rng.choice(['ASCII', 'B64BIN', 'B64GZ'])])
        elif n and r < 0.50:
            pos = rng.randrange(n)
            da = ref._da(pos)
            mdt = ref.nds[da['nd']]['dt']
            cands = [mdt] + ([] if self.exact else WIDEN[mdt])
            self.emit(['F', pos, 'datatype', rng.choice(cands)])
        elif n and r < 0.56:
            self.emit(['F', rng.randrange(n), 'ord', rng.choice('CF')])
        elif n and r < 0.59:
            self.emit(['F', rng.randrange(n), 'endian', rng.choice([0, 1, 2])])
        elif n and r < 0.63:
            pos = rng.randrange(n)
            self.emit(['F', pos, 'dims', _same_size_dims(rng, ref._da(pos)['dims'])])
        elif n and r < 0.66:
            self.emit(['F', rng.randrange(n), 'ext', [rng.choice(['', 'x.bin', 'é&.dat']), rng.choice([0, 1, 12345])]])
        elif n and r < 0.74:
            pos = rng.randrange(n)
            da = ref._da(pos)
            q = rng.random()
            if q < 0.5 or not da['meta']:
                k = rng.choice(list(da['meta'])) if da['meta'] and rng.random() < 0.5 else rand_text(rng)
                self.emit(['F', pos, 'mset', [k, rand_text(rng)]])
            elif q < 0.75:
                self.emit(['F', pos, 'mdel', rng.choice(list(da['meta']))])
            else:
                self.emit(['F', pos, 'mnew', rand_meta(rng)])
        elif n and r < 0.79:
            pos = rng.randrange(n)
            cs = rand_cs(rng)
            self.emit(['F', pos, 'cs', cs, bool(cs is not None and rng.random() < 0.5)])
        elif n and r < 0.82:
            self.emit(['F', rng.randrange(n), 'intent', rng.choice(W_INTENTS)])
        elif r < 0.87:
            q = rng.random()
            if q < 0.5 or not ref.gmeta:
                k = rng.choice(list(ref.gmeta)) if ref.gmeta and rng.random() < 0.5 else rand_text(rng)
                self.emit(['G', k, rand_text(rng)])
            elif q < 0.8:
                self.emit(['Gd', rng.choice(list(ref.gmeta))])
            else:
                self.emit(['Gn', rand_meta(rng)])
        elif r < 0.92:
            q = rng.random()
            lab = rand_labels(rng) or [[3, 'lab', None]]
            if q < 0.45 or not ref.labels:
                self.emit(['L'] + lab[0])
            elif q < 0.75:
                self.emit(['Ls', rng.randrange(len(ref.labels))] + lab[0])
            elif q < 0.93:
                self.emit(['Ld', rng.randrange(len(ref.labels))])
            else:
                self.emit(['Ln'])
        elif r < 0.96 or not n:
            q = rng.random()
            if q < 0.6 or not ref.das:
                self.emit(['A', self.new_da()])
            elif q < 0.8:
                self.emit(['A', rng.choice(list(ref.das))])                     # an object the image may already hold
            else:
                self.emit(['A', self.new_da(rng.choice(list(ref.nds)))])         # new data array sharing an ndarray
        elif r < 0.98:
            self.emit(['P', rng.randrange(-n, n)])
        elif r < 0.99:
            self.emit(['R', rng.choice(W_INTENTS)])
        else:
            self.emit(['V', rng.choice(['1.0', '1', '1.1'])])


def rand_whist(rng):
    exact = rng.random() < 0.35           # histories with a re-load use float32 values the ASCII text holds exactly
    gen = _WGen(rng, exact)
    for kv in rand_meta(rng):
        gen.emit(['G'] + kv)
    for lab in rand_labels(rng)[:2]:
        gen.emit(['L'] + lab)
    for _ in range(rng.choice([1, 1, 2, 3])):
        gen.emit(['A', gen.new_da()])
    for _ in range(rng.choice([1, 2, 2, 3])):
        if exact and gen.ref.reloadable() and rng.random() < 0.5:
            gen.nid += 100
            gen.emit(['Y', rng.choice(['to_bytes', 'to_filename', 'to_xml']), gen.nid])
            gen.nid += 20
        else:
            gen.emit(_rand_ser(rng, False))
        for _ in range(rng.choice([1, 1, 2, 3])):
            gen.mutate()
    gen.emit(_rand_ser(rng, False))
    return gen.ops


def whist_cases(rng, tier):
    out = []
    # systematic: every encoding x dtype x kind of change between two serialisations x serialisation method pair
    k = 0
    for enc in ENC_SPEC:
        for dt in DTYPES:
            for change in ('inplace', 'rebind', 'enc', 'ord', 'meta', 'pop-add'):
                k += 1
                m1, m2 = SER_METHODS[k % len(SER_METHODS)], SER_METHODS[(k // 2 + 3) % len(SER_METHODS)]
                shape = [[4], [2, 3], [2, 1, 2]][k % 3]
                n = int(np.prod(shape))
                b0 = rand_bits_w(rng, dt, n, True)
                b1 = rand_bits_w(rng, dt, n, True)
                if b1 == b0:
                    b1 = b0[1:] + [b0[0] ^ 1]
                ops = [['G', 'k&', '<v>'], ['N', 1, dt, shape, b0, {}],
                       ['O', 2, 1, {'intent': 1008, 'dt': None, 'enc': enc, 'ord': 'CF'[k % 2], 'endian': 'little',
                                    'meta': [['Name', 'a<b']], 'cs': None, 'fname': '', 'off': 0}],
                       ['N', 3, 'int32', [2], [7, 8], {}],
                       ['O', 4, 3, {'intent': 2005, 'dt': None, 'enc': enc, 'ord': 'C', 'endian': 'big', 'meta': [],
                                    'cs': None, 'fname': '', 'off': 0}],
                       ['A', 2], ['A', 4], ['X', m1, SER_MODES[k % len(SER_MODES)]]]
                if change == 'inplace':
                    ops += [['E', 0, ['all', 'copyto', 'flat', 'elem'][k % 4], b1], ['E', 1, 'all', [9, 8]]]
                elif change == 'rebind':
                    ops += [['N', 5, dt, shape, b1, {}], ['F', 0, 'data', 5]]
                elif change == 'enc':
                    ops += [['F', 0, 'enc', [e for e in ENC_SPEC if e != enc][k % 2]]]
                elif change == 'ord':
                    ops += [['F', 0, 'ord', 'FC'[k % 2]]]
                elif change == 'meta':
                    ops += [['F', 0, 'mset', ['Name', 'b>a']], ['G', 'k2', 'é']]
                else:
                    ops += [['P', 0], ['N', 5, dt, shape, b1, {}],
                            ['O', 6, 5, {'intent': 1008, 'dt': None, 'enc': enc, 'ord': 'C', 'endian': 'little', 'meta': [],
                                         'cs': None, 'fname': '', 'off': 0}], ['A', 6]]
                ops += [['X', m2, None]]
                if change == 'inplace':
                    ops += [['E', 0, 'all', b0], ['X', m1, None]]
                out.append(mk_whist(ops, 'whist-grid'))
    for _ in range({'quick': 1200, 'thorough': 15000, 'search': 1500}[tier]):
        out.append(mk_whist(rand_whist(rng), 'whist'))
    return out


def shrink_whist(case):
    ops = case.data['ops']
    for i in range(len(ops) - 1, -1, -1):
        rest = ops[:i] + ops[i + 1:]
        try:
            yield mk_whist(rest, case.stream)
        except Exception:
            continue
    for i, op in enumerate(ops):
        if op[0] == 'X' and (op[1] != 'to_xml' or op[2] is not None):
            yield mk_whist(ops[:i] + [['X', 'to_xml', None]] + ops[i + 1:], case.stream)
        if op[0] == 'Y':
            try:
                yield mk_whist(ops[:i] + [['X', 'to_xml', None]] + ops[i + 1:], case.stream)
            except Exception:
                pass
        if op[0] == 'O' and (op[3]['meta'] or op[3]['cs'] is not None):
            try:
                yield mk_whist(ops[:i] + [op[:3] + [dict(op[3], meta=[], cs=None)]] + ops[i + 1:], case.stream)
            except Exception:
                pass
        if op[0] == 'N' and len(op) > 5 and (op[5].get('swap') or op[5].get('fmem')):
            yield mk_whist(ops[:i] + [op[:5] + [{}]] + ops[i + 1:], case.stream)


# ------------------------------------------------------------------------------------------ gen (translated methods)

def mk_gen(fn, arg, das):
    """fn in numDA|get|rm ; arg = intent argument (int | str | None for numDA) ; das = [[id, intent], ...]"""
    line = ' '.join(['C17 gen', fn, '_' if arg is None else arg_tok(arg), ','.join('%d:%d' % (i, it) for i, it in das) or '-'])
    return Case(line, {'op': 'gen', 'fn': fn, 'arg': arg, 'das': [list(x) for x in das]},
                ('gen', fn, json.dumps(arg), json.dumps(das)), 'gen')


def impl_gen(case):
    g, p, u, n1 = _mods()
    d = case.data
    img = g.GiftiImage()
    ident = {}
    objs = {}
    for i, it in d['das']:
        if i not in objs:
            objs[i] = g.GiftiDataArray(np.zeros(1, np.uint8))
            objs[i].intent = it
            ident[id(objs[i])] = i
        img.darrays.append(objs[i])
    try:
        if d['fn'] == 'numDA':
            return str(int(img.numDA))
        if d['fn'] == 'get':
            return lst([ident[id(x)] for x in img.get_arrays_from_intent(py_arg(d['arg']))])
        img.remove_gifti_data_array_by_intent(py_arg(d['arg']))
        return lst([ident[id(x)] for x in img.darrays])
    except KeyError:
        return 'ERR:KeyError'


def oracle_gen(case, out):
    d = case.data
    if d['fn'] == 'numDA':
        return None if out == str(len(d['das'])) else f'[gen:numDA] {out} for {len(d["das"])} arrays'
    c = ref_code(d['arg'])
    if c is None:
        return None if out == 'ERR:KeyError' else f'[gen:{d["fn"]}] unknown intent {d["arg"]!r} gave {out}'
    want = lst([i for i, it in d['das'] if (it == c) == (d['fn'] == 'get')])
    return None if out == want else f'[gen:{d["fn"]}] {d["fn"]}({d["arg"]!r}) on {d["das"]} gave {out}, the named arrays are {want}'


def gen_cases(rng, tier):
    out = []
    codes = [0, 1008, 2001]
    for n in range(5):
        for seq in itertools.product(codes, repeat=n):
            das = [[i, it] for i, it in enumerate(seq)]
            out.append(mk_gen('numDA', None, das))
            for k, c in enumerate(codes):
                out.append(mk_gen('get', c if (n + k) % 2 else ALIAS[c][k % 2], das))
                out.append(mk_gen('rm', ALIAS[c][(k + 1) % 2] if (n + k) % 2 else c, das))
    for _ in range({'quick': 400, 'thorough': 4000, 'search': 400}[tier]):
        n = rng.randrange(0, 9)
        pool = list(ALIAS)
        das, ids = [], []
        for i in range(n):
            if ids and rng.random() < 0.2:
                j = rng.choice(ids)                      # the same object twice
                das.append([j, [x for x in das if x[0] == j][0][1]])
            else:
                das.append([i, rng.choice(pool)])
                ids.append(i)
        out.append(mk_gen(rng.choice(['get', 'rm']), rand_intent_arg(rng, pool, 0.08), das))
    return out


# ------------------------------------------------------------------------------------------ module API

def case_from_data(d):
    op = d['op']
    if op == 'hist':
        return mk_hist(d['ops'], d.get('stream', 'hist'))
    if op == 'orig':
        return mk_orig(d['ids'], d['intents'], d['it'])
    if op == 'space':
        return Case('C17 space', {'op': 'space'}, ('space',), 'spec')
    if op == 'block':
        return mk_block(d)
    if op == 'xml':
        return mk_xml(d, d.get('stream', 'xml'))
    if op == 'wblock':
        return mk_wblock(d)
    if op == 'xmlraw':
        return mk_raw(d['xml'], d['buf'], d.get('stream', 'xml-foreign'))
    if op == 'wevents':
        return mk_wevents(d)
    if op == 'whist':
        return mk_whist(d['ops'], d.get('stream', 'whist'))
    if op == 'gen':
        return mk_gen(d['fn'], d['arg'], d['das'])
    raise ValueError(d)


def impl(case):
    op = case.data['op']
    return {'hist': impl_hist, 'orig': impl_orig, 'space': impl_space, 'block': impl_block, 'xml': impl_xml,
            'wblock': impl_wblock, 'xmlraw': impl_xml, 'wevents': impl_wevents, 'whist': impl_whist, 'gen': impl_gen}[op](case)


def oracle(case, out):
    op = case.data['op']
    if op == 'hist':
        return oracle_hist(case, out)
    if op == 'block':
        return oracle_block(case, out)
    if op == 'xml':
        return oracle_xml(case, out)
    if op == 'wblock':
        return oracle_wblock(case, out)
    if op == 'whist':
        return oracle_whist(case, out)
    if op == 'gen':
        return oracle_gen(case, out)
    return None


def signature(case, what):
    d = case.data
    op = d['op']
    m = re.match(r'\[([^\]]*)\]', what or '')
    tag = m.group(1) if m else 'other'
    if op == 'xml':
        zero_b64 = any(a['enc'] == 'B64BIN' and 0 in a['shape'] for a in d['arrays'])
        if zero_b64 and tag == 'error:parse' and 'AttributeError' in what:
            return 'b64bin:zero-size-none-data'
        return 'xml:' + tag
    if op == 'block':
        if d.get('none') or (d['enc'] == 'B64BIN' and 0 in d['shape'] and 'text' not in d):
            return 'block:' + tag + ':zero'
        return f'block:{tag}:{"ascii" if d["enc"] == "ASCII" else "base64"}'
    return tag if op == 'hist' else op + ':' + tag


def shrink_candidates(case):
    d = case.data
    if d['op'] == 'hist':
        ops = d['ops']
        for i in range(len(ops)):
            rest = ops[:i] + ops[i + 1:]
            ids = set()
            ok = True
            for o in rest:
                if o[0] == 'a':
                    ids.add(o[1])
            if ok:
                yield mk_hist(rest, case.stream)
        return
    if d['op'] == 'whist':
        yield from shrink_whist(case)
        return
    if d['op'] != 'xml':
        return
    arrs = d['arrays']
    for i in range(len(arrs)):
        yield mk_xml(dict(d, arrays=arrs[:i] + arrs[i + 1:]), case.stream)
    if d['meta']:
        yield mk_xml(dict(d, meta=[]), case.stream)
        for i in range(len(d['meta'])):
            yield mk_xml(dict(d, meta=d['meta'][:i] + d['meta'][i + 1:]), case.stream)
    if d['labels']:
        yield mk_xml(dict(d, labels=[]), case.stream)
    if d['variant'] != 'plain':
        yield mk_xml(dict(d, variant='plain'), case.stream)
    if d['buf']:
        yield mk_xml(dict(d, buf=0), case.stream)
    if d.get('hops', 1) == 2:
        yield mk_xml(dict(d, hops=1), case.stream)
    for i, a in enumerate(arrs):
        def rep(**kw):
            return mk_xml(dict(d, arrays=arrs[:i] + [dict(a, **kw)] + arrs[i + 1:]), case.stream)
        if a['meta']:
            yield rep(meta=[])
        if a['cs'] is not None:
            yield rep(cs=None)
        if a['endian'] != 'LittleEndian':
            yield rep(endian='LittleEndian')
        if a.get('swap'):
            yield rep(swap=False)
        if a.get('fmem'):
            yield rep(fmem=False)
        if len(a['shape']) > 1:
            n = int(np.prod(a['shape']))
            yield rep(shape=[n])
        if len(a['shape']) == 1 and a['shape'][0] > 1:
            yield rep(shape=[a['shape'][0] - 1], bits=a['bits'][:-1])
        for k, kv in enumerate(a['meta']):
            for j in (0, 1):
                if len(kv[j]) > 1:
                    for cut in (kv[j][:len(kv[j]) // 2], kv[j][len(kv[j]) // 2:], kv[j][1:], kv[j][:-1]):
                        if cut == cut.strip() and (j == 1 or cut not in [x[0] for x in a['meta']]):
                            nm = [list(x) for x in a['meta']]
                            nm[k][j] = cut
                            yield rep(meta=nm)


# ------------------------------------------------------------------------------------------ generators

TEXT_PIECES = ['a', 'Z', '0', 'name', 'x y', '<', '>', '&', '"', "'", '<tag>', '&amp;', '&lt;', ']]>', '<![CDATA[',
               'é', 'ß', '日本', '€', '\U0001d11e', 'Ж', 'a\nb', 'a\tb', 'a  b', ' ', 'l1\nl2\n\nl4', '\n', 'x\n y',
               '　', '%s', '{}', '\\', '/', '=', ';', '#', '--', '?>', '​', 'A' * 9]


def rand_text(rng, allow_empty=True):
    if allow_empty and rng.random() < 0.08:
        return ''
    s = ''.join(rng.choice(TEXT_PIECES) for _ in range(rng.choice([1, 1, 2, 3, 5, 9])))
    s = s.strip()
    return s if (s or allow_empty) else 'k'


def rand_meta(rng):
    md = {}
    for _ in range(rng.choice([0, 0, 1, 2, 3])):
        md[rand_text(rng)] = rand_text(rng)
    return [[k, v] for k, v in md.items()]


U8_EXT = [0, 1, 127, 128, 254, 255]
I32_EXT = [0, 1, 2 ** 31 - 1, 2 ** 31, 2 ** 32 - 1, 2 ** 32 - 2, 65536, 0x80000001]   # as two's-complement patterns
F32_EXT = [0x00000000, 0x80000000, 0x3f800000, 0xbf800000, 0x7f800000, 0xff800000, 0x7fc00000, 0xffc00001,
           0x7f800001, 0x00000001, 0x807fffff, 0x7f7fffff, 0xff7fffff, 0x00800000, 0x3eaaaaab, 0x4b7fffff, 0x33800000]


def f32_bits(x):
    return int(np.array(x, dtype='<f4').view('<u4'))


def rand_bits(rng, dt, n, ascii_):
    out = []
    for _ in range(n):
        r = rng.random()
        if dt == 'uint8':
            out.append(rng.choice(U8_EXT) if r < 0.4 else rng.randrange(256))
        elif dt == 'int32':
            out.append(rng.choice(I32_EXT) if r < 0.4 else (rng.randrange(-1000, 1000) % 2 ** 32 if r < 0.7
                                                            else rng.randrange(2 ** 32)))
        elif ascii_:
            if r < 0.3:
                out.append(rng.choice([0x00000000, 0x80000000, 0x3f800000, 0xbf800000, 0x7f7fffff, 0xff7fffff,
                                       0x00000001, 0x3eaaaaab, 0x4b7fffff, 0x33800000]))
            elif r < 0.7:
                out.append(f32_bits(rng.uniform(-200, 200)))
            else:
                out.append(f32_bits(rng.uniform(-1, 1) * 10.0 ** rng.randrange(-8, 30)))
        else:
            out.append(rng.choice(F32_EXT) if r < 0.45 else rng.randrange(2 ** 32))
    return out


def rand_shape(rng, zero=False):
    nd = rng.choice([1, 2, 2, 3, 3])
    big = rng.random() < 0.06
    shape = [rng.choice([1, 1, 2, 3, 4, 5]) if not big else rng.choice([1, 7, 17]) for _ in range(nd)]
    while int(np.prod(shape)) > 400:
        shape[rng.randrange(nd)] = 1
    if zero:
        shape[rng.randrange(nd)] = 0
    return shape


def rand_cs(rng):
    if rng.random() < 0.5:
        return None
    xf = [[round(rng.uniform(-300, 300), rng.choice([0, 2, 6, 9])) if rng.random() < 0.7 else rng.choice([0.0, 1.0, -1.0, -0.0, 1e-7, 0.4999995])
           for _ in range(4)] for _ in range(4)]
    return {'ds': rng.randrange(5), 'xs': rng.randrange(5), 'xf': xf}


def rand_array(rng, enc=None, order=None, endian=None, zero=False):
    dt = rng.choice(['uint8', 'int32', 'float32'])
    enc = enc or rng.choice(['ASCII', 'B64BIN', 'B64GZ'])
    shape = rand_shape(rng, zero)
    return {'dt': dt, 'shape': shape, 'bits': rand_bits(rng, dt, int(np.prod(shape)), enc == 'ASCII'),
            'intent': rng.choice([0, 1002, 1008, 1009, 2001, 2005]), 'enc': enc, 'ord': order or rng.choice('CF'),
            'endian': endian or rng.choice(['LittleEndian', 'BigEndian']), 'meta': rand_meta(rng), 'cs': rand_cs(rng),
            'fmem': rng.random() < 0.3, 'swap': rng.random() < 0.35}


def rand_labels(rng):
    out = []
    for _ in range(rng.choice([0, 0, 1, 2, 4])):
        rgba = None
        if rng.random() < 0.6:
            rgba = [rng.choice([None, 0.0, 1.0, 0.5, 0.25, 0.123456789, 1e-05]) for _ in range(4)]
            if all(x is None for x in rgba):
                rgba = None
        out.append([rng.choice([0, 1, 2, 7, 255, 65535, 2 ** 31]), rand_text(rng, allow_empty=False), rgba])
    return out


def rand_buf(rng):
    """parser buffer size: default, or every size from 1 to 16 bytes (smaller than most text nodes, so that
    newline-containing metadata / multi-row ASCII data / MatrixData are split inside and at the newlines), or larger"""
    r = rng.random()
    if r < 0.25:
        return 0
    if r < 0.8:
        return rng.randrange(1, 17)
    return rng.choice([17, 31, 64, 100, 1000])


def rand_image(rng, zero=False):
    uniform = rng.random() < 0.5
    enc = rng.choice(['ASCII', 'B64BIN', 'B64GZ']) if uniform else None
    order = rng.choice('CF') if uniform else None
    endian = rng.choice(['LittleEndian', 'BigEndian']) if uniform else None
    n = rng.choice([0, 1, 1, 2, 3, 4])
    return {'arrays': [rand_array(rng, enc, order, endian, zero and i == 0) for i in range(n)], 'meta': rand_meta(rng),
            'labels': rand_labels(rng), 'buf': rand_buf(rng),
            'variant': rng.choice(['plain', 'plain', 'pretty', 'cdata']), 'version': rng.choice(['1.0', '1.0', '1']),
            'hops': rng.choice([1, 1, 2])}


def rand_intent_arg(rng, codes, bad=0.04):
    """an intent argument in one of the forms the API accepts: integer code, NumPy integer, niistring, label"""
    if rng.random() < bad:
        return rng.choice(BAD_ARGS)
    c = rng.choice(codes)
    f = rng.randrange(5)
    if f <= 1:
        return c
    if f == 2:
        return ['np', c]
    return ALIAS[c][f - 3]


def hist_probes(codes):
    """every selection / aggregation the API offers, asked for every intent of `codes` BY INTEGER CODE (0 included)
    and by a string alias, plus all arrays, plus tuples (mixed forms, None element, repeated element)"""
    probes = []
    for k, it in enumerate(codes):
        probes += [['g', it], ['A', it], ['g', ALIAS[it][k % 2]], ['A', ALIAS[it][(k + 1) % 2]]]
    probes += [['A', None], ['T', [codes[-1], codes[0]]], ['T', [codes[0], None, ALIAS[codes[1]][1], codes[0]]],
               ['T', []]]
    return probes


def hist_cases(rng, tier):
    out = []
    nmax = 6 if tier == 'thorough' else 5

    def grid(codes, lengths):
        probes = hist_probes(codes)
        for n in lengths:
            for seq in itertools.product(codes, repeat=n):
                # arrays of intent 0 are created WITHOUT an intent argument (constructor default) every other time
                adds = [['a', i, (None if it == 0 and i % 2 else it)] for i, it in enumerate(seq)]
                muts = [['r', (it if k % 3 == 0 else ALIAS[it][k % 3 - 1])] for k, it in enumerate(codes)] + \
                       [['r', it] for it in codes if it == 0] + [['p', i] for i in range(-n - 1, n + 1)]
                for j, m in enumerate(muts):
                    pre = probes if j == 0 else probes[j % len(probes):j % len(probes) + 1]
                    out.append(mk_hist(adds + pre + [m] + probes))
    # three codes incl. 0 (NONE: falsy, the default) and TIME_SERIES (stacked) up to nmax; four codes one shorter
    grid([0, 1008, 2001], range(nmax + 1))
    grid(INTENTS4, range(1, nmax))
    nrand = {'quick': 2000, 'thorough': 20000, 'search': 2000}[tier]
    for _ in range(nrand):
        ops, nid = [], 0
        codes = rng.choice([INTENTS4, INTENTS4, [0, 2001], [0, 1008], sorted(ALIAS)])
        for _ in range(rng.randrange(1, 16)):
            r = rng.random()
            if r < 0.4 or not nid:
                if nid and rng.random() < 0.15:
                    i = rng.randrange(nid)               # the same object added again
                    ops.append(['a', i, [o for o in ops if o[0] == 'a' and o[1] == i][0][2]])
                else:
                    a = rand_intent_arg(rng, codes, 0.02)
                    ops.append(['a', nid, None if a == 0 and rng.random() < 0.5 else a])
                    nid += 1
            elif r < 0.55:
                ops.append(['p', rng.randrange(-nid - 1, nid + 1)])
            elif r < 0.7:
                ops.append(['r', rand_intent_arg(rng, codes)])
            elif r < 0.8:
                ops.append(['g', rand_intent_arg(rng, codes)])
            elif r < 0.92:
                ops.append(['A', None] if rng.random() < 0.2 else ['A', rand_intent_arg(rng, codes)])
            else:
                ops.append(['T', [None if rng.random() < 0.1 else rand_intent_arg(rng, codes, 0.02)
                                  for _ in range(rng.randrange(0, 4))]])
        out.append(mk_hist(ops, 'hist-random'))
    return out


def spec_cases(rng, tier):
    out = [Case('C17 space', {'op': 'space'}, ('space',), 'spec')]
    nmax = 6 if tier == 'thorough' else 5
    for n in range(nmax + 1):
        for seq in itertools.product([5, 6], repeat=n):
            out.append(mk_orig(list(range(n)), list(seq), 5))
    for _ in range({'quick': 300, 'thorough': 3000, 'search': 300}[tier]):
        n = rng.randrange(1, 9)
        pool = rng.randrange(1, n + 1)
        intents_of = [rng.choice([5, 5, 6, 7]) for _ in range(pool)]
        ids = [rng.randrange(pool) for _ in range(n)]
        out.append(mk_orig(ids, [intents_of[i] for i in ids], 5))
    return out


def block_cases(rng, tier):
    out = []
    # every combination on a fixed small array per dtype / rank
    for dt in DTYPES:
        for shape in ([3], [2, 3], [2, 3, 2], [1, 1], [4, 1, 2]):
            n = int(np.prod(shape))
            for enc in ENC_SPEC:
                bits = rand_bits(rng, dt, n, enc == 'ASCII')
                for endian in ('LittleEndian', 'BigEndian'):
                    for order in 'CF':
                        for layout in ('nib', 'col'):
                            if layout == 'col' and enc != 'ASCII':
                                continue
                            out.append(mk_block({'dt': dt, 'shape': shape, 'bits': bits, 'enc': enc, 'endian': endian,
                                                 'ord': order, 'layout': layout}))
    for _ in range({'quick': 1500, 'thorough': 25000, 'search': 2000}[tier]):
        a = rand_array(rng)
        d = {k: a[k] for k in ('dt', 'shape', 'bits', 'enc', 'endian', 'ord')}
        d['layout'] = rng.choice(['nib', 'col'])
        r = rng.random()
        stream = 'block'
        if r < 0.12:
            d['mut'] = 'ws'
        elif r < 0.2 and int(np.prod(d['shape'])) * DTYPES[d['dt']][1] >= 4:
            d['mut'] = 'trunc'
            if d['enc'] == 'B64GZ' or (d['enc'] == 'ASCII' and len(d['shape']) == 1 and d['shape'][0] == 1):
                d.pop('mut')
            stream = 'block-malformed'
        elif r < 0.25:
            dims = list(d['shape'])
            dims[rng.randrange(len(dims))] += 1
            d['dims'] = dims
            stream = 'block-malformed'
        elif r < 0.28:
            d['enc_code'] = rng.choice([0, 4, 5])
            stream = 'block-malformed'
        elif r < 0.3:
            d['end_code'] = 0
            stream = 'block-malformed'
        out.append(mk_block(d, stream))
    return out


def wblock_cases(rng, tier):
    out = []
    for _ in range({'quick': 400, 'thorough': 5000, 'search': 1000}[tier]):
        a = rand_array(rng, enc=rng.choice(['B64BIN', 'B64GZ']))
        out.append(mk_wblock({k: a[k] for k in ('dt', 'shape', 'bits', 'enc', 'ord', 'fmem', 'swap')}))
    return out


def xml_cases(rng, tier):
    out = []
    # systematic: one array, every encoding x order x endian x buffer size x dtype, ranks 1-3
    for dt in DTYPES:
        for shape in ([3], [2, 3], [2, 3, 2]):
            for enc in ENC_SPEC:
                for order in 'CF':
                    for endian in ('LittleEndian', 'BigEndian'):
                        for buf in (0, 1, 7, 64):
                            a = {'dt': dt, 'shape': shape, 'bits': rand_bits(rng, dt, int(np.prod(shape)), enc == 'ASCII'),
                                 'intent': 1008, 'enc': enc, 'ord': order, 'endian': endian,
                                 'meta': [['Name', 'a<b>&"c\'é']], 'cs': None}
                            out.append(mk_xml({'arrays': [a], 'meta': [['k&', '<v>']], 'labels': [[1, 'l<&>日', None]],
                                               'buf': buf, 'variant': 'plain'}, 'xml-grid'))
                            if buf in (0, 7):
                                # in-memory byte order swapped (user-supplied '>' data), and the
                                # load -> re-save -> load chain (arrays parsed from a BigEndian document keep '>')
                                out.append(mk_xml({'arrays': [dict(a, swap=True)], 'meta': [], 'labels': [],
                                                   'buf': buf, 'variant': 'plain', 'hops': 1 + (buf == 7)}, 'xml-grid'))
                                out.append(mk_xml({'arrays': [a], 'meta': [['k&', '<v>']], 'labels': [[1, 'l<&>日', None]],
                                                   'buf': buf, 'variant': 'plain', 'hops': 2}, 'xml-grid'))
    for _ in range({'quick': 3000, 'thorough': 50000, 'search': 3000}[tier]):
        out.append(mk_xml(rand_image(rng), 'xml'))
    return out


def edge_cases(rng, tier):
    out = []
    for _ in range({'quick': 60, 'thorough': 600, 'search': 100}[tier]):
        out.append(mk_xml(rand_image(rng, zero=True), 'edge-zero'))
    return out


def cases(rng, tier):
    return spec_cases(rng, tier) + hist_cases(rng, tier) + block_cases(rng, tier) + wblock_cases(rng, tier) + \
        xml_cases(rng, tier) + edge_cases(rng, tier) + foreign_cases(rng, tier) + wevents_cases(rng, tier) + \
        whist_cases(rng, tier) + gen_cases(rng, tier)
