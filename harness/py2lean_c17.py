"""py2lean_c17 — `harness/py2lean.py` extended for the small container METHODS of `nibabel/gifti/gifti.py`
(`GiftiImage.numDA`, `get_arrays_from_intent`, `remove_gifti_data_array_by_intent`): list code over objects.

The translation stays purely syntactic.  On top of the base fragment, as AST rewrites done BEFORE the base translator:

    Python                                     becomes
    -----------------------------------------  ----------------------------------------------------------------
    def m(self, a): …                          def m(self_x…, a)        `self.x` (read) = an extra VALUE parameter
    intent_codes.code[e]                       intent_code(e)           an extra CALLABLE parameter (the Recoder lookup;
                                                                        the Lean side instantiates it with the regenerated
                                                                        table, `KeyError` = Err.indexError as for dicts)
    x.intent                                   x[1]                     a data array object is the tuple (id, intent) of
                                                                        the attributes these methods read
    return [E for v in L if C]                 _ret = [E for v in L if C]; return _ret      (then base `_Desugar`)
    self.x[:] = E   (whole-slice assignment)   self_x = E  and, at the end of the method, `return self_x`:
                                               a method that mutates `self.x` is a function returning the new `self.x`
Anything else outside the fragment raises `Untranslatable`.
"""
import ast
import inspect
import textwrap

from py2lean import FnTranslator, Untranslatable, _Desugar, _WriteBack

OBJ_ATTRS = {'intent': 1}          # attribute -> position in the tuple that models a data array object


class _C17Rewrite(ast.NodeTransformer):
    def __init__(self, selfname):
        self.selfname = selfname
        self.added = []
        self.mutated = []

    def _add(self, n):
        if n not in self.added:
            self.added.append(n)
        return n

    def visit_Subscript(self, node):
        v = node.value
        if isinstance(v, ast.Attribute) and v.attr == 'code' and isinstance(v.value, ast.Name) \
                and v.value.id == 'intent_codes' and isinstance(node.ctx, ast.Load) and not isinstance(node.slice, ast.Slice):
            self._add('intent_code')
            return ast.copy_location(ast.Call(func=ast.Name(id='intent_code', ctx=ast.Load()),
                                              args=[self.visit(node.slice)], keywords=[]), node)
        self.generic_visit(node)
        return node

    def visit_Attribute(self, node):
        if self.selfname and isinstance(node.value, ast.Name) and node.value.id == self.selfname:
            if not isinstance(node.ctx, ast.Load):
                raise Untranslatable('assignment to an attribute of self')
            return ast.copy_location(ast.Name(id=self._add('self_' + node.attr), ctx=ast.Load()), node)
        if node.attr in OBJ_ATTRS and isinstance(node.ctx, ast.Load):
            return ast.copy_location(ast.Subscript(value=self.visit(node.value), slice=ast.Constant(value=OBJ_ATTRS[node.attr]),
                                                   ctx=ast.Load()), node)
        self.generic_visit(node)
        return node

    def visit_Name(self, node):
        if self.selfname and node.id == self.selfname:
            raise Untranslatable('`self` used as a value')
        return node

    def visit_Return(self, node):
        self.generic_visit(node)
        if isinstance(node.value, ast.ListComp):
            tmp = ast.Name(id='_ret', ctx=ast.Store())
            return [ast.copy_location(ast.Assign(targets=[tmp], value=node.value), node),
                    ast.copy_location(ast.Return(value=ast.Name(id='_ret', ctx=ast.Load())), node)]
        return node

    def visit_Assign(self, node):
        self.generic_visit(node)
        if len(node.targets) == 1 and isinstance(node.targets[0], ast.Subscript):
            t = node.targets[0]
            if isinstance(t.slice, ast.Slice) and t.slice.lower is None and t.slice.upper is None and t.slice.step is None \
                    and isinstance(t.value, ast.Name) and t.value.id.startswith('self_'):
                if t.value.id not in self.mutated:
                    self.mutated.append(t.value.id)
                node.targets = [ast.Name(id=t.value.id, ctx=ast.Store())]
        return node


def method_node(obj):
    src = textwrap.dedent(inspect.getsource(obj))
    fn = ast.parse(src).body[0]
    if not isinstance(fn, ast.FunctionDef):
        raise Untranslatable('not a function definition')
    fn.decorator_list = []
    selfname = fn.args.args[0].arg if fn.args.args and fn.args.args[0].arg == 'self' else None
    rw = _C17Rewrite(selfname)
    body = []
    for s in fn.body:
        r = rw.visit(s)
        body += r if isinstance(r, list) else [r]
    if rw.mutated:
        if len(rw.mutated) != 1 or any(isinstance(n, ast.Return) for s in body for n in ast.walk(s)):
            raise Untranslatable('mutating method with a return / several mutated attributes')
        body.append(ast.Return(value=ast.Name(id=rw.mutated[0], ctx=ast.Load())))
    fn.body = body
    rest = fn.args.args[1:] if selfname else fn.args.args
    fn.args.args = [ast.arg(arg=n) for n in rw.added] + rest
    fn = ast.fix_missing_locations(fn)
    fn = ast.fix_missing_locations(_Desugar().visit(fn))
    fn = ast.fix_missing_locations(_WriteBack().visit(fn))
    return fn, src


def translate_methods(objs, namespace, header):
    """objs: list of (python function, lean name)"""
    out = ['import NibabelModel.Basic.PyVal', header, 'set_option linter.unusedVariables false',
           f'namespace {namespace}', 'open Nb.Py', '']
    sigs = {}
    for obj, lname in objs:
        fn, src = method_node(obj)
        tr = FnTranslator(fn, {})
        first = [l for l in src.strip().splitlines() if l.strip().startswith('def ')][0].strip()
        out.append(tr.translate(lean_name=lname, doc=f'translated from `{first}` (nibabel.gifti.gifti.GiftiImage)'))
        out.append('')
        sigs[lname] = [(p, tr.callable_params.get(p)) for p in tr.params]
    out.append(f'end {namespace}')
    out.append('')
    return '\n'.join(out), sigs
