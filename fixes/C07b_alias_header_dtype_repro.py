#!/usr/bin/env python
"""C07b: saving a NIfTI image that uses a dtype alias must not change it.

With ``img.set_data_dtype('compat' | 'smallest')`` (or ``dtype=alias`` at
construction) the alias is resolved at save time.  The save must leave the
image exactly as it was: same header bytes (``img.header.binaryblock``), same
``img.get_data_dtype()`` (the alias), and repeated saves must give identical
files.  On the unpatched tree the alias is restored after the save but the
header keeps the resolved on-disk dtype (e.g. int64 -> int32).

The documented ``finalize`` semantic (``get_data_dtype(finalize=True)`` sets
the header dtype and clears the alias) is checked to be intact as well.

Exit status 0: property holds.  Exit status 1: first failing input printed.

Run as ``PYTHONPATH=<tree under test> /venv/bin/python <this file>``.
"""

import io
import os
import sys
import tempfile
import warnings

import numpy as np

import nibabel as nib

warnings.simplefilter('ignore')

CLASSES = [nib.Nifti1Image, nib.Nifti1Pair, nib.Nifti2Image, nib.Nifti2Pair]

# data dtype, min, max  (resolvable or not, both matter)
DATA = [
    (np.uint8, 0, 255),
    (np.int8, 0, 127),
    (np.int8, -128, 127),
    (np.int16, -32768, 32767),
    (np.uint16, 0, 32767),
    (np.uint16, 0, 65535),
    (np.int32, -(2**31), 2**31 - 1),
    (np.uint32, 0, 2**31 - 1),
    (np.uint32, 0, 2**32 - 1),
    (np.int64, -(2**31), 2**31 - 1),
    (np.int64, 0, 255),
    (np.int64, 0, 256),
    (np.int64, -1, 255),
    (np.int64, 0, 32768),
    (np.int64, 0, 2**32),
    (np.uint64, 0, 2**31 - 1),
    (np.float32, 0, 1e30),
    (np.float64, 0, 1e30),
    (np.float64, 0, 1e40),
    (np.float64, -3, 7),
]
ALIASES = ['compat', 'smallest']
HOW = ['set_data_dtype', 'constructor']
AFF = np.diag([2.0, 3, 4, 1])


def make(klass, dt, mn, mx, alias, how):
    arr = np.arange(24, dtype=dt).reshape((2, 3, 4))
    arr[0, 0, :2] = [mn, mx]
    if how == 'constructor':
        return klass(arr, AFF, dtype=alias)
    img = klass(arr, AFF)
    img.set_data_dtype(alias)
    return img


def state(img):
    return {
        'header bytes': img.header.binaryblock,
        'header datatype': int(img.header['datatype']),
        'header bitpix': int(img.header['bitpix']),
        'get_data_dtype()': str(img.get_data_dtype()),
        'alias': img._dtype_alias,
        'data': np.asanyarray(img.dataobj).tobytes(),
        'affine': img.affine.tobytes(),
    }


def changed(a, b):
    return [f'{k}: {a[k]!r} -> {b[k]!r}' for k in a if a[k] != b[k] and k != 'header bytes'] + (
        ['header bytes'] if a['header bytes'] != b['header bytes'] else []
    )


def bytesio_map(klass):
    return klass.make_file_map({key: io.BytesIO() for key, _ in klass.files_types})


def map_bytes(fm):
    return {k: fh.fileobj.getvalue() for k, fh in fm.items()}


class FailingWrite(io.BytesIO):
    def write(self, b):
        raise OSError(28, 'No space left on device (injected)')


def check(klass, dt, mn, mx, alias, how):
    label = (
        f'{klass.__name__}, data {np.dtype(dt).name} [{mn}, {mx}], alias {alias!r} via {how}'
    )
    out = []
    img = make(klass, dt, mn, mx, alias, how)
    before = state(img)
    if before['alias'] != alias or before['get_data_dtype()'] != alias:
        return [f'{label}: alias not stored']
    # 1. save to a file_map (three times)
    saves = []
    for i in range(3):
        fm = bytesio_map(klass)
        try:
            img.to_file_map(fm)
        except ValueError:
            # alias cannot be resolved for these data: loud refusal, state unchanged
            ch = changed(before, state(img))
            if ch:
                out.append(f'{label}: refused save #{i + 1} changed the image: {ch}')
            return out
        saves.append(map_bytes(fm))
        ch = changed(before, state(img))
        if ch:
            out.append(f'{label}: successful save #{i + 1} changed the image: {ch}')
            break
    if len(saves) > 1 and any(s != saves[0] for s in saves[1:]):
        out.append(f'{label}: repeated saves are not byte-identical')
    # the written dtype is the resolved one
    fm = bytesio_map(klass)
    img.to_file_map(fm)
    on_disk = klass.from_file_map(fm).get_data_dtype()
    fresh = make(klass, dt, mn, mx, alias, how)
    resolved = fresh.get_data_dtype(finalize=True)
    if on_disk != resolved:
        out.append(f'{label}: on-disk dtype {on_disk} != finalized dtype {resolved}')
    # documented finalize semantic intact: sets the header, clears the alias
    if fresh._dtype_alias is not None or fresh.get_data_dtype() != resolved:
        out.append(f'{label}: finalize=True no longer sets dtype / clears alias')
    if fresh.header.get_data_dtype() != resolved:
        out.append(f'{label}: finalize=True no longer sets the header dtype')
    # 2. other serialisation routes
    img = make(klass, dt, mn, mx, alias, how)
    before = state(img)
    if hasattr(img, 'to_bytes') and len(klass.files_types) == 1:
        b1 = img.to_bytes()
        ch = changed(before, state(img))
        if ch:
            out.append(f'{label}: to_bytes() changed the image: {ch}')
        if img.to_bytes() != b1:
            out.append(f'{label}: repeated to_bytes() differ')
    with tempfile.TemporaryDirectory() as tmp:
        fname = os.path.join(tmp, 'x' + klass.files_types[0][1])
        img.to_filename(fname)
        ch = changed(before, state(img))
        if ch:
            out.append(f'{label}: to_filename() changed the image: {ch}')
    # 3. explicit dtype= override on top of an alias
    img = make(klass, dt, mn, mx, alias, how)
    before = state(img)
    img.to_file_map(bytesio_map(klass), dtype=np.float32)
    ch = changed(before, state(img))
    if ch:
        out.append(f'{label}: to_file_map(dtype=float32) changed the image: {ch}')
    # 4. alias given as the dtype= override: whatever the outcome, no change
    img = make(klass, dt, mn, mx, alias, how)
    before = state(img)
    try:
        img.to_file_map(bytesio_map(klass), dtype=alias)
    except Exception:
        pass
    ch = changed(before, state(img))
    if ch:
        out.append(f'{label}: to_file_map(dtype={alias!r}) changed the image: {ch}')
    # 5. failing destination.  Only the dtype fields and the alias are compared
    #    here: slope / intercept / offset after a failed write are defect C07a
    #    (C07a_save_fault_restore_repro.py checks the complete header bytes)
    if len(klass.files_types) == 2:
        img = make(klass, dt, mn, mx, alias, how)
        before = state(img)
        fm = klass.make_file_map({'header': io.BytesIO(), 'image': FailingWrite()})
        try:
            img.to_file_map(fm)
        except OSError:
            pass
        else:
            out.append(f'{label}: injected OSError swallowed')
        ch = [c for c in changed(before, state(img)) if c != 'header bytes']
        if ch:
            out.append(f'{label}: failed save changed the image: {ch}')
    return out


def main():
    failures = []
    n = 0
    for klass in CLASSES:
        k_fail = []
        for dt, mn, mx in DATA:
            for alias in ALIASES:
                for how in HOW:
                    n += 1
                    k_fail.extend(check(klass, dt, mn, mx, alias, how))
        print(f'{klass.__name__:12s} {"FAIL (%d)" % len(k_fail) if k_fail else "ok"}')
        failures.extend(k_fail)
    if failures:
        print(f'\n{len(failures)} failures in {n} cases; first failing input:')
        for f in failures[:5]:
            print('  ' + f)
        return 1
    print(f'C07b: {n} alias cases: saves leave header, dtype and alias unchanged')
    return 0


if __name__ == '__main__':
    sys.exit(main())
