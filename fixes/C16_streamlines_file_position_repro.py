"""C16 repro: TrkFile.load / TckFile.load on an already-open file object must
leave the file position where it was.

Sweeps {TRK, TCK} x {BytesIO, real file} x start offsets x tractogram shapes and
checks ``fobj.tell()`` after
  * eager load,
  * lazy load (before any iteration),
  * one and two full iterations of the lazy tractogram's streamlines,
  * full iteration of the lazy tractogram itself (items),
  * a partially consumed, then abandoned streamlines generator,
and that all of these still return the right streamlines (twice in a row).

For TRK the tractogram file may be embedded after junk bytes (the reader parses
the header at the current position).  The TCK reader always parses the header
at byte 0 and uses the absolute ``file: . <offset>`` entry, so for TCK the file
starts at byte 0 and only the *handle position* is varied.

Exit status 1 (with the failing inputs printed) if any check fails, else 0.
"""

import gc
import os
import sys
import tempfile
import warnings
from io import BytesIO

import numpy as np

from nibabel.streamlines import Tractogram
from nibabel.streamlines.tck import TckFile
from nibabel.streamlines.trk import TrkFile

warnings.simplefilter('ignore')
rng = np.random.RandomState(16)


def make_streamlines(n, with_data):
    sls = [rng.randint(-40, 40, size=(rng.randint(1, 5), 3)).astype('f4') / 4 for _ in range(n)]
    dpp = dps = None
    if with_data and n:
        dpp = {'fa': [rng.rand(len(s), 1).astype('f4') for s in sls]}
        dps = {'mean': [rng.rand(2).astype('f4') for _ in sls]}
    return sls, dpp, dps


def file_bytes(cls, sls, dpp, dps):
    if cls is TckFile:
        dpp = dps = None
    t = Tractogram(sls, data_per_streamline=dps, data_per_point=dpp, affine_to_rasmm=np.eye(4))
    bio = BytesIO()
    cls(t).save(bio)
    return bio.getvalue()


def same(got, expected):
    got = [np.asarray(g) for g in got]
    return len(got) == len(expected) and all(
        g.shape == e.shape and np.allclose(g, e, atol=1e-4) for g, e in zip(got, expected)
    )


failures = []


def check(label, fobj, start, what):
    pos = fobj.tell()
    if pos != start:
        failures.append(f'{label}: position after {what} is {pos}, expected {start}')


def run_case(label, cls, fobj, start, sls):
    fobj.seek(start)
    eager = cls.load(fobj, lazy_load=False)
    check(label, fobj, start, 'eager load')
    if not same(eager.streamlines, sls):
        failures.append(f'{label}: eager load returned wrong streamlines')

    fobj.seek(start)
    lazy = cls.load(fobj, lazy_load=True)
    gc.collect()
    check(label, fobj, start, 'lazy load (no iteration yet)')

    for rep in (1, 2):
        fobj.seek(start)
        got = list(lazy.streamlines)
        check(label, fobj, start, f'lazy iteration #{rep} of .streamlines')
        if not same(got, sls):
            failures.append(f'{label}: lazy iteration #{rep} returned wrong streamlines')

    fobj.seek(start)
    got = [item.streamline for item in lazy.tractogram]
    check(label, fobj, start, 'lazy iteration of tractogram items')
    # (items come straight from the reader, before the to-RAS+mm affine, so only
    # their number and shapes are compared here)
    if [g.shape for g in got] != [s.shape for s in sls]:
        failures.append(f'{label}: lazy item iteration returned wrong items')

    if len(sls) >= 2:
        fobj.seek(start)
        gen = iter(lazy.streamlines)
        next(gen)
        gen.close()
        del gen
        gc.collect()
        check(label, fobj, start, 'abandoned lazy iteration (1 item consumed)')
        fobj.seek(start)
        if not same(list(lazy.streamlines), sls):
            failures.append(f'{label}: iteration after an abandoned one is wrong')


def main():
    tmpdir = tempfile.mkdtemp()
    n_cases = 0
    for cls in (TrkFile, TckFile):
        for n in (0, 1, 2, 3, 5):
            for with_data in (False, True):
                if cls is TckFile and with_data:
                    continue
                sls, dpp, dps = make_streamlines(n, with_data)
                raw = file_bytes(cls, sls, dpp, dps)
                if cls is TrkFile:
                    # (junk prefix length, handle position at call time)
                    layouts = [(0, 0), (7, 7), (1000, 1000), (4099, 4099)]
                else:
                    layouts = [(0, 0), (0, 5), (0, len(raw) - 3), (0, len(raw))]
                for junk, start in layouts:
                    blob = bytes(rng.randint(1, 255, size=junk).astype('u1')) + raw
                    for kind in ('BytesIO', 'file'):
                        label = (
                            f'{cls.__name__} n_streamlines={n} extra_data={with_data} '
                            f'junk_prefix={junk} start={start} fobj={kind}'
                        )
                        if kind == 'BytesIO':
                            fobj = BytesIO(blob)
                        else:
                            path = os.path.join(tmpdir, f'c16_{n_cases}.bin')
                            with open(path, 'wb') as f:
                                f.write(blob)
                            fobj = open(path, 'rb')
                        try:
                            run_case(label, cls, fobj, start, sls)
                        except Exception as e:  # noqa: BLE001
                            failures.append(f'{label}: unexpected {type(e).__name__}: {e}')
                        finally:
                            fobj.close()
                        n_cases += 1

    # Loading by file name must keep working (a fresh handle per pass).
    for cls, ext in ((TrkFile, '.trk'), (TckFile, '.tck')):
        sls, _, _ = make_streamlines(3, False)
        path = os.path.join(tmpdir, 'byname' + ext)
        with open(path, 'wb') as f:
            f.write(file_bytes(cls, sls, None, None))
        lazy = cls.load(path, lazy_load=True)
        for rep in (1, 2):
            if not same(list(lazy.streamlines), sls):
                failures.append(f'{cls.__name__} by filename: lazy iteration #{rep} wrong')
        if not same(cls.load(path).streamlines, sls):
            failures.append(f'{cls.__name__} by filename: eager load wrong')

    print(f'C16: {n_cases} cases, {len(failures)} failed checks')
    for msg in failures[:25]:
        print('FAIL', msg)
    if len(failures) > 25:
        print(f'... and {len(failures) - 25} more')
    return 1 if failures else 0


if __name__ == '__main__':
    sys.exit(main())
