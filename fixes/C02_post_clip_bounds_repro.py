#!/usr/bin/env python
"""C02: rescaled integer storage must never wrap around.

Constant and narrow-range float arrays at large magnitude (2**24 .. 2**60,
both signs; float32 and float64 input) are saved through NIfTI-1 to every
integer on-disk type and reloaded.  With the stored float32 slope ``s`` and
intercept ``b`` and the stored raw integers ``q`` (exact ``Fraction``
arithmetic):

* wrap test: ``q == clip(rint((v - b) / s), type_min, type_max)`` up to the
  rounding of the working float (relative 2**-20 allowed, a wrap is off by the
  full width of the type); in particular a value that scales to below
  (above) the integer range is stored as the type minimum (maximum), never on
  the other side;
* error bound: ``|q * s + b - v| <= |s| / 2`` plus the float32 rounding of the
  slope and intercept, ``2**-23 * (|b| + |s| * max(|type_min|, |type_max|))``.

A loud refusal (exception while saving) is accepted.

On the unpatched tree the post-scaling clip bounds can invert
(``post_mx < both_mn``): the constant 16777219.0 written as uint8 stores 255
and reloads 16777475.

Exit status 0: property holds.  Exit status 1: first failing input printed.

Run as ``PYTHONPATH=<tree under test> /venv/bin/python <this file>``.
"""

import sys
import warnings
from fractions import Fraction

import numpy as np

import nibabel as nib

OUT_TYPES = [np.uint8, np.int8, np.uint16, np.int16, np.uint32, np.int32, np.uint64, np.int64]
IN_TYPES = [np.float64, np.float32]


def rint_half_even(fr):
    fl = fr.numerator // fr.denominator
    rem = fr - fl
    if rem > Fraction(1, 2) or (rem == Fraction(1, 2) and fl % 2):
        return fl + 1
    return fl


def inputs():
    """Yield (description, float64 array of exactly representable values)

    Offsets are chosen relative to the float32 spacing at that magnitude, so the
    float32 intercept / slope stored in the header round both up and down.
    """
    for k in list(range(24, 34)) + list(range(34, 61, 3)):
        for sign in (1, -1):
            base = sign * 2**k
            ulp64 = max(1, 2 ** (k - 52))
            ulp32 = 2 ** (k - 23)
            quarter = max(ulp64, ulp32 // 4)
            for d0 in sorted({0, quarter, 3 * quarter, ulp32 - ulp64, ulp32 + ulp64, 3 * ulp64}):
                yield (
                    f'constant {sign:+d}*2**{k}{d0:+d}',
                    np.array([base + d0] * 3, dtype=np.float64),
                )
                for step in sorted({ulp64, 3 * ulp64, ulp32}):
                    for n in (2, 40):
                        vals = base + d0 + step * np.arange(n, dtype=object)
                        yield (
                            f'range {sign:+d}*2**{k}{d0:+d} + {step}*arange({n})',
                            np.array([float(v) for v in vals], dtype=np.float64),
                        )


def check(desc, arr, in_type, out_type):
    """Return failure description or None"""
    data = arr.astype(in_type).reshape((-1, 1, 1))
    label = f'{desc} as {np.dtype(in_type).name} -> {np.dtype(out_type).name}'
    with warnings.catch_warnings(record=True) as wlist:
        warnings.simplefilter('always')
        img = nib.Nifti1Image(data, np.eye(4))
        img.set_data_dtype(out_type)
        try:
            blob = img.to_bytes()
        except Exception:
            return None  # loud refusal
        back = nib.Nifti1Image.from_bytes(blob)
        raw = np.asarray(back.dataobj.get_unscaled()).ravel()
        reloaded = np.asarray(back.dataobj).ravel()
    bad_cast = [w for w in wlist if 'invalid value encountered in cast' in str(w.message)]
    if raw.dtype != np.dtype(out_type):
        return f'{label}: on-disk dtype is {raw.dtype}'
    # scaling as read from the file (the loaded image's own header has it reset)
    s_raw, b_raw = float(back.dataobj.slope), float(back.dataobj.inter)
    s = Fraction(1) if (np.isnan(s_raw) or s_raw == 0) else Fraction(s_raw)
    b = Fraction(0) if np.isnan(b_raw) else Fraction(b_raw)
    info = np.iinfo(out_type)
    omin, omax = int(info.min), int(info.max)
    qmax = max(abs(omin), abs(omax))
    tol = abs(s) / 2 + Fraction(1, 2**23) * (abs(b) + abs(s) * qmax)
    for v_f, q_np, r_f in zip(data.ravel(), raw, reloaded):
        v, q = Fraction(float(v_f)), int(q_np)
        ideal = rint_half_even((v - b) / s)
        expected = min(max(ideal, omin), omax)
        # rounding of the working float (float32 at worst) on the scaled value,
        # also covers type limits not exactly representable in that float;
        # a wrap moves the stored value by the full width of the type
        q_tol = 1 + (min(abs(ideal), qmax) >> 20)
        where = f'{label}: value {float(v_f)!r} stored as {q} (slope {s_raw!r}, inter {b_raw!r})'
        if abs(q - expected) > q_tol:
            return (
                f'{where}; (v - inter) / slope rounds to {ideal}, clipped to the type range '
                f'that is {expected}: wrap-around; reloads as {float(r_f)!r}'
            )
        err = abs(q * s + b - v)
        if err > tol:
            return f'{where}; reloads as {float(r_f)!r}: error {float(err)} > bound {float(tol)}'
        if abs(Fraction(float(r_f)) - (q * s + b)) > tol:
            return f'{where}; get_fdata value {float(r_f)!r} is not raw * slope + inter'
    if bad_cast:
        return f'{label}: RuntimeWarning: {bad_cast[0].message}'
    return None


def main():
    failures = []
    n = 0
    per_type = {}
    for desc, arr in inputs():
        for in_type in IN_TYPES:
            for out_type in OUT_TYPES:
                n += 1
                res = check(desc, arr, in_type, out_type)
                if res is not None:
                    failures.append(res)
                    name = np.dtype(out_type).name
                    per_type[name] = per_type.get(name, 0) + 1
    if failures:
        print(f'{len(failures)} failures in {n} cases; per on-disk type: {per_type}')
        print('first failing inputs:')
        for f in failures[:5]:
            print('  ' + f)
        return 1
    print(f'C02: {n} cases: no wrap-around, all reloads within the error bound')
    return 0


if __name__ == '__main__':
    sys.exit(main())
