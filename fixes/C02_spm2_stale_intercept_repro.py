import sys; sys.path.insert(0, sys.argv[1])
import numpy as np, nibabel as nib, io
from nibabel.spm2analyze import Spm2AnalyzeImage, Spm2AnalyzeHeader
data = np.linspace(100, 200, 24).reshape(2,3,4)
bad = 0
def rt(img):
    fm = Spm2AnalyzeImage.make_file_map()
    for k in fm: fm[k].fileobj = io.BytesIO()
    img.to_file_map(fm)
    return Spm2AnalyzeImage.from_file_map(fm), fm
# 1. header of a scaled NIfTI file given to an SPM2 image
n = nib.Nifti1Image(data, np.eye(4)); n.set_data_dtype(np.int16)
hdr = nib.Nifti1Header.from_fileobj(io.BytesIO(n.to_bytes()))
img = Spm2AnalyzeImage(data, np.eye(4), header=hdr); img.set_data_dtype(np.int16)
back, _ = rt(img)
e = np.abs(back.get_fdata() - data).max(); print('nifti header donor: max err', e); bad |= e > 0.01
# 2. an SPM2 file that stores an intercept (as SPM2 writes them), loaded and saved again
img = Spm2AnalyzeImage(data.astype(np.int16), np.eye(4)); 
_, fm = rt(img)
raw = bytearray(fm['header'].fileobj.getvalue())
h = Spm2AnalyzeHeader(bytes(raw)); h['scl_slope'] = 2.0; h['scl_inter'] = 50.0
fm['header'].fileobj = io.BytesIO(h.binaryblock)
loaded = Spm2AnalyzeImage.from_file_map(fm)
want = loaded.get_fdata().copy()
assert np.allclose(want, data.astype(np.int16) * 2.0 + 50)
back, _ = rt(loaded)
e = np.abs(back.get_fdata() - want).max(); print('resave of a file with intercept: max err', e); bad |= e > 0.01
sys.exit(1 if bad else 0)
