"""C08 repro: a truncated TRK file must never load as a shorter tractogram.

For validly written TRK files (0..4 streamlines, with/without per-point and
per-streamline data) EVERY strict prefix of the file is loaded eagerly and
lazily (then fully iterated); each must raise.  The complete file must load
all streamlines.  (Only for the file holding 0 streamlines a prefix may also
load "successfully": the result, an empty tractogram, is then the same data as
the complete file's - this happens when only trailing zero bytes of the header
are cut, because the header reader does not check the length it read.)

When the header count is 0 ("not provided", allowed by the format) the reader
keeps reading to EOF: the complete file yields all streamlines, a prefix cut at
a record boundary yields the records present, a cut inside a record raises.

Exit status 1 (with the failing inputs printed) if any check fails, else 0.
"""

import sys
import warnings
from io import BytesIO

import numpy as np

from nibabel.streamlines import Tractogram
from nibabel.streamlines import trk as trk_module
from nibabel.streamlines.trk import TrkFile

warnings.simplefilter('ignore')
rng = np.random.RandomState(8)
COUNT_OFFSET = trk_module.header_2_dtype.fields['nb_streamlines'][1]
HEADER_SIZE = trk_module.header_2_dtype.itemsize


def make_file(n, with_data):
    sls = [rng.randint(-40, 40, size=(rng.randint(1, 5), 3)).astype('f4') / 4 for _ in range(n)]
    dpp = dps = None
    n_scalars = n_props = 0
    if with_data:
        n_scalars, n_props = 1, 2
        dpp = {'fa': [rng.rand(len(s), n_scalars).astype('f4') for s in sls]}
        dps = {'mean': [rng.rand(n_props).astype('f4') for _ in sls]}
    t = Tractogram(sls, data_per_streamline=dps, data_per_point=dpp, affine_to_rasmm=np.eye(4))
    bio = BytesIO()
    TrkFile(t).save(bio)
    raw = bio.getvalue()
    # Byte offsets at which a record ends (index k: first k records complete).
    boundaries = [HEADER_SIZE]
    for s in sls:
        boundaries.append(boundaries[-1] + 4 + len(s) * (3 + n_scalars) * 4 + n_props * 4)
    assert boundaries[-1] == len(raw), (boundaries, len(raw))
    return raw, sls, boundaries


def load_count(data, lazy):
    """Number of streamlines obtained, or the exception raised."""
    try:
        trk = TrkFile.load(BytesIO(data), lazy_load=lazy)
        return sum(1 for _ in trk.streamlines)
    except Exception as e:  # noqa: BLE001 - any error is an acceptable refusal
        return e


def main():
    failures = []
    n_loads = 0
    for n in (0, 1, 2, 3, 4):
        for with_data in (False, True):
            if n == 0 and with_data:
                continue
            raw, sls, boundaries = make_file(n, with_data)
            label = f'TRK n_streamlines={n} extra_data={with_data} size={len(raw)}'
            assert int(np.frombuffer(raw[COUNT_OFFSET : COUNT_OFFSET + 4], '<i4')[0]) == n

            for lazy in (False, True):
                mode = 'lazy' if lazy else 'eager'
                # Complete file.
                res = load_count(raw, lazy)
                n_loads += 1
                if res != n:
                    failures.append(f'{label} {mode}: complete file gave {res!r}, expected {n}')
                # Every strict prefix.
                for k in range(len(raw)):
                    res = load_count(raw[:k], lazy)
                    n_loads += 1
                    if not isinstance(res, Exception) and res != n:
                        at = ' (record boundary)' if k in boundaries else ''
                        failures.append(
                            f'{label} {mode}: prefix of {k} bytes{at} loaded {res} '
                            f'streamlines without error (header announces {n})'
                        )

            # Header count 0 = unknown: read to EOF, as before.
            if n:
                raw0 = bytearray(raw)
                raw0[COUNT_OFFSET : COUNT_OFFSET + 4] = np.array(0, '<i4').tobytes()
                raw0 = bytes(raw0)
                for lazy in (False, True):
                    mode = 'lazy' if lazy else 'eager'
                    # (starts after the header: a header-only file that declares
                    # scalars/properties hits an unrelated IndexError in eager mode)
                    for k in range(HEADER_SIZE + 1, len(raw0) + 1):
                        res = load_count(raw0[:k], lazy)
                        n_loads += 1
                        if k in boundaries:
                            expected = boundaries.index(k)
                            if res != expected:
                                failures.append(
                                    f'{label} {mode} count=0: {k} bytes gave {res!r}, '
                                    f'expected {expected} streamlines'
                                )
                        elif not isinstance(res, Exception):
                            failures.append(
                                f'{label} {mode} count=0: cut inside a record at {k} bytes '
                                f'loaded {res} streamlines without error'
                            )

    print(f'C08: {n_loads} loads, {len(failures)} failed checks')
    for msg in failures[:25]:
        print('FAIL', msg)
    if len(failures) > 25:
        print(f'... and {len(failures) - 25} more')
    return 1 if failures else 0


if __name__ == '__main__':
    sys.exit(main())
