import sys, subprocess, tempfile
repo = sys.argv[1]
code = r'''
import sys; sys.path.insert(0, %r)
import mmap, numpy as np, nibabel as nib
from numpy.lib.stride_tricks import as_strided, sliding_window_view
kind = sys.argv[1]
p = 'a.nii'
data = np.arange(64*64*3, dtype='<i2').reshape(64, 64, 3)
nib.Nifti1Image(data, np.eye(4)).to_filename(p)
if kind == 'frombuffer':
    f = open(p, 'rb'); mm = mmap.mmap(f.fileno(), 0, access=mmap.ACCESS_READ)
    arr = np.frombuffer(mm, dtype='<i2', count=data.size, offset=352).reshape(data.shape, order='F')
else:
    m = np.asanyarray(nib.load(p).dataobj)
    if kind == 'as_strided':
        arr = as_strided(m, shape=m.shape, strides=m.strides)
    elif kind == 'memoryview':
        arr = np.asarray(memoryview(m))
    elif kind == 'window':
        arr = sliding_window_view(m, (1, 1, 1))[..., 0, 0, 0]
assert np.array_equal(arr, data)
nib.Nifti1Image(arr, np.eye(4)).to_filename(p)
sys.exit(0 if np.array_equal(np.asarray(nib.load(p).dataobj), data) else 3)
''' % repo
bad = 0
for kind in ('frombuffer', 'as_strided', 'memoryview', 'window'):
    with tempfile.TemporaryDirectory() as d:
        r = subprocess.run([sys.executable, '-c', code, kind], cwd=d)
        print(kind, 'exit', r.returncode); bad |= r.returncode != 0
sys.exit(1 if bad else 0)
