import sys, os, subprocess, tempfile
repo = sys.argv[1]
code = r'''
import sys; sys.path.insert(0, %r)
import numpy as np, nibabel as nib, os
from nibabel.freesurfer.mghformat import MGHImage
cls = {'nii': nib.Nifti1Image, 'mgh': MGHImage, 'img': nib.Nifti1Pair}[sys.argv[1]]
path = 'a.' + sys.argv[1]
arr = np.arange(24*50*50, dtype=np.int16).reshape(24, 50, 50)
cls(arr, np.eye(4)).to_filename(path)
img = nib.load(path)
view = np.asarray(img.dataobj)          # plain ndarray view of the memory map
assert type(view) is np.ndarray
cls(view, img.affine, img.header).to_filename(path)
back = np.asarray(nib.load(path).dataobj)
sys.exit(0 if np.array_equal(back, arr) else 3)
''' % repo
bad = 0
for ext in ('nii', 'mgh', 'img'):
    with tempfile.TemporaryDirectory() as d:
        r = subprocess.run([sys.executable, '-c', code, ext], cwd=d)
        print(ext, 'exit', r.returncode)
        bad |= r.returncode != 0
sys.exit(1 if bad else 0)
