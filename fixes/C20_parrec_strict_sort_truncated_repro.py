"""C20 repro: PAR/REC ``strict_sort=True`` + ``permit_truncated=True``.

For every multi-volume ``*.PAR`` fixture shipped with nibabel, with its image
definition lines in the original, reversed, volume-major and slice-major order,
the last ``k`` image-definition lines are dropped from the PAR text (a
recording that stopped part-way), a matching REC file is fabricated in which
every pixel of record ``i`` holds the value ``i``, and the pair is loaded with
``strict_sort=True, permit_truncated=True``.  Recordings left without any
complete volume, and V4 diffusion files (volume labels not unique) are skipped.

Expected: the slice records used are exactly those of the *complete* volumes
(every slice number 1..max_slices present for one combination of the volume
labels), each output volume holds the records of one volume in ascending slice
order, and the loaded (unscaled) data are those records' slabs.

Exit status 1 (first failing inputs printed) on any disagreement, else 0.
"""

import glob
import os
import sys
import tempfile
import warnings

import numpy as np

import nibabel
from nibabel import parrec

DATA_DIR = os.path.join(os.path.dirname(nibabel.__file__), 'tests', 'data')
# volume labels used by the strict sort (all but the slice number)
LABEL_FIELDS = (
    'image_type_mr',
    'dynamic scan number',
    'label type',
    'diffusion b value number',
    'gradient orientation number',
    'cardiac phase number',
    'echo number',
)
MAX_REC_BYTES = 8 * 2**20


def split_par(text):
    """Return (lines, positions of the image-definition lines)"""
    lines = text.splitlines(keepends=True)
    rec_pos = [
        i for i, line in enumerate(lines) if line.strip() and line.lstrip()[0] not in '#.'
    ]
    return lines, rec_pos


def expected_records(image_defs, max_slices):
    """Oracle: {volume label: record indices by slice no} for complete volumes"""
    fields = [f for f in LABEL_FIELDS if f in image_defs.dtype.names]
    volumes = {}
    for i, rec in enumerate(image_defs):
        label = tuple(np.asarray(rec[f]).tolist() for f in fields)
        volumes.setdefault(label, []).append((int(rec['slice number']), i))
    full_set = list(range(1, max_slices + 1))
    complete = {}
    for label, members in volumes.items():
        if sorted(s for s, _ in members) == full_set:
            complete[label] = [i for _, i in sorted(members)]
    return complete, volumes


def record_orders(defs):
    """Orders in which a scanner could have written the records"""
    n = len(defs)
    fields = [f for f in LABEL_FIELDS if f in defs.dtype.names]
    by_label = np.lexsort([defs['slice number']] + [defs[f] for f in fields])
    return {
        'original': np.arange(n),
        'reversed': np.arange(n)[::-1],
        'volume-major': by_label,
        'slice-major': by_label[np.argsort(defs['slice number'][by_label], kind='stable')],
    }


def check_one(par_path, order, k, tmpdir):
    """Return None if OK, else a description of the failure"""
    with open(par_path) as fobj:
        lines, rec_pos = split_par(fobj.read())
    rec_lines = [lines[rec_pos[i]] for i in order]
    for pos, line in zip(rec_pos, rec_lines):
        lines[pos] = line
    drop = set(rec_pos[len(rec_pos) - k :])
    trunc_text = ''.join(line for i, line in enumerate(lines) if i not in drop)
    n_rec = len(rec_pos) - k
    base = os.path.join(tmpdir, f'trunc_{k}')
    with open(base + '.PAR', 'w') as fobj:
        fobj.write(trunc_text)
    with warnings.catch_warnings():
        warnings.simplefilter('ignore')
        with open(base + '.PAR') as fobj:
            hdr = parrec.PARRECHeader.from_fileobj(fobj, permit_truncated=True, strict_sort=True)
        assert len(hdr.image_defs) == n_rec
        max_slices = hdr.general_info['max_slices']
        complete, volumes = expected_records(hdr.image_defs, max_slices)
        if any(len(m) > max_slices for m in volumes.values()):
            return 'skip'  # volume labels not unique (V4 diffusion): out of scope
        if not complete:
            return 'skip'  # no complete volume left: nothing sensible to return
        got = [int(i) for i in hdr.get_sorted_slice_indices()]
    want_set = sorted(i for recs in complete.values() for i in recs)
    if sorted(got) != want_set:
        extra = sorted(set(got) - set(want_set))
        missing = sorted(set(want_set) - set(got))
        return (
            f'{len(complete)} complete volumes of {len(volumes)}; records of partial volumes '
            f'kept: {extra}; records of complete volumes dropped: {missing}'
        )
    chunks = [got[i : i + max_slices] for i in range(0, len(got), max_slices)]
    if sorted(map(tuple, chunks)) != sorted(map(tuple, complete.values())):
        return 'an output volume mixes records of different volumes / wrong slice order'
    # End to end through the image loader: slab i of the REC file holds value i
    xy = tuple(int(v) for v in hdr.image_defs['recon resolution'][0])
    if xy[0] * xy[1] * n_rec * 2 <= MAX_REC_BYTES:
        rec = np.empty(xy + (n_rec,), dtype='<i2')
        rec[...] = np.arange(n_rec)
        with open(base + '.REC', 'wb') as fobj:
            fobj.write(rec.tobytes(order='F'))
        with warnings.catch_warnings():
            warnings.simplefilter('ignore')
            img = parrec.load(base + '.PAR', permit_truncated=True, strict_sort=True)
            data = np.asarray(img.dataobj.get_unscaled())
        data = data.reshape(xy + (max_slices, -1), order='F')
        if data.shape[3] != len(chunks):
            return f'image has {data.shape[3]} volumes, expected {len(chunks)}'
        for v, chunk in enumerate(chunks):
            for s, rec_no in enumerate(chunk):
                if not np.all(data[:, :, s, v] == rec_no):
                    return f'volume {v} slice {s}: data are not those of record {rec_no}'
    return None


def main():
    failures = []
    n_checked = 0
    with tempfile.TemporaryDirectory() as tmpdir:
        for par_path in sorted(glob.glob(os.path.join(DATA_DIR, '*.PAR'))):
            name = os.path.basename(par_path)
            with open(par_path) as fobj:
                _, rec_pos = split_par(fobj.read())
            with warnings.catch_warnings():
                warnings.simplefilter('ignore')
                with open(par_path) as fobj:
                    info, defs = parrec.parse_PAR_header(fobj)
            max_slices = int(info['max_slices'])
            assert len(rec_pos) == len(defs), name
            if len(defs) < 2 * max_slices or len(defs) % max_slices:
                continue  # single volume, or fixture already truncated
            for order_name, order in record_orders(defs).items():
                for k in range(1, min(2 * max_slices, len(defs) - max_slices) + 1):
                    try:
                        res = check_one(par_path, order, k, tmpdir)
                    except Exception as exc:  # loader refused
                        res = f'raised {type(exc).__name__}: {exc}'
                    if res == 'skip':
                        continue
                    n_checked += 1
                    if res is not None:
                        failures.append((name, order_name, k, res))
    print(f'checked {n_checked} truncated recordings')
    if failures:
        print(f'FAIL: {len(failures)} truncated recordings loaded wrongly with strict_sort=True')
        seen = set()
        for name, order_name, k, why in failures:
            if (name, order_name) in seen:
                continue
            seen.add((name, order_name))
            if len(seen) > 12:
                print('  ...')
                break
            why = why if len(why) < 300 else why[:300] + ' ...'
            print(f'  {name} ({order_name} order), last {k} slice record(s) dropped: {why}')
        return 1
    print('OK: exactly the complete volumes are returned')
    return 0


if __name__ == '__main__':
    sys.exit(main())
