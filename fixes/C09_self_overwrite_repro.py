#!/usr/bin/env python
"""C09: saving an image onto the file it was (lazily) loaded from.

``img = nib.load(p); nib.save(img, p)`` and longer load / save histories must
leave every written file decoding to the image data and affine, and must leave
the process alive.  On the unpatched tree the memory-mapped source is
truncated by opening the destination ``'wb'`` before the data are written:
wrong data / zeros for ``.nii`` and ``.mgh``, SIGBUS for ``.img``.

Every history runs in a CHILD process (the unpatched code can kill the
interpreter).  Exit status 0: property holds; 1: first failing input printed.

Run as ``PYTHONPATH=<tree under test> /venv/bin/python <this file>``.
"""

import itertools
import json
import os
import signal
import subprocess
import sys
import tempfile
import warnings

FORMATS = [
    # class name, file name, second file name
    ('Nifti1Image', 'a.nii', 'b.nii'),
    ('Nifti2Image', 'a.nii', 'b.nii'),
    ('Nifti1Pair', 'a.img', 'b.img'),
    ('Nifti1Pair', 'a.hdr', 'b.hdr'),
    ('Nifti2Pair', 'a.img', 'b.img'),
    ('AnalyzeImage', 'a.img', 'b.img'),
    ('Spm99AnalyzeImage', 'a.img', 'b.img'),
    ('Spm2AnalyzeImage', 'a.img', 'b.img'),
    ('MGHImage', 'a.mgh', 'b.mgh'),
    # compressed names (no memory mapping possible; must keep working)
    ('Nifti1Image', 'a.nii.gz', 'b.nii'),
    ('Nifti1Image', 'a.nii.bz2', 'b.nii.gz'),
    ('Nifti1Pair', 'a.img.gz', 'b.img'),
    ('MGHImage', 'a.mgz', 'b.mgh'),
    ('MGHImage', 'a.mgz', 'b.mgz'),
]

HISTORIES = [
    # p: the file loaded from, q: another file
    ['load p', 'save p'],
    ['load p', 'save p', 'save p'],
    ['load p', 'save q', 'save p'],
    ['load p', 'save q', 'save p', 'save q'],
    ['load p', 'fdata', 'save p'],
    ['load p', 'save p', 'load p', 'save p'],
    ['load p', 'save q', 'load q', 'save q', 'save p'],
    ['load p', 'to_filename p'],
    ['load p', 'to_file_map'],
]

DTYPES = ['float32', 'int16', 'uint8', 'float64']
SHAPES = [(2, 3, 4), (33, 31, 17)]
MMAPS = [True, 'r']


def child(fmt_index):
    import numpy as np

    import nibabel as nib

    warnings.simplefilter('ignore')
    klass_name, pname, qname = FORMATS[fmt_index]
    klass = getattr(nib, klass_name)
    aff = np.array([[2.0, 0, 0, -10], [0, 3, 0, -20], [0, 0, 4, -30], [0, 0, 0, 1]])
    n_bad = 0
    for dt, shape, mmap, hist in itertools.product(DTYPES, SHAPES, MMAPS, HISTORIES):
        if klass_name == 'MGHImage' and dt == 'float64':
            continue  # not an MGH type
        case = json.dumps(
            {'class': klass_name, 'p': pname, 'q': qname, 'dtype': dt, 'shape': shape,
             'mmap': mmap, 'history': hist}
        )
        print('START ' + case, flush=True)
        rng = np.random.RandomState(7)
        arr = rng.randint(1, 200, size=shape).astype(dt)
        with tempfile.TemporaryDirectory() as tmp:
            paths = {'p': os.path.join(tmp, pname), 'q': os.path.join(tmp, qname)}
            klass(arr, aff).to_filename(paths['p'])
            # reference affine: what the format keeps of it (plain Analyze: zooms only)
            aff = nib.load(paths['p'], mmap=False).affine.copy()
            img = None
            written = set()
            problems = []
            for op in hist:
                verb, _, which = op.partition(' ')
                if verb == 'load':
                    img = nib.load(paths[which], mmap=mmap)
                elif verb == 'save':
                    nib.save(img, paths[which])
                    written.add(which)
                elif verb == 'to_filename':
                    img.to_filename(paths[which])
                    written.add(which)
                elif verb == 'to_file_map':
                    img.to_file_map()
                    written.add('p')
                elif verb == 'fdata':
                    img.get_fdata()
                # every file written so far decodes to the image
                for w in sorted(written):
                    back = nib.load(paths[w], mmap=False)
                    data = np.asanyarray(back.dataobj)
                    if data.shape != arr.shape or not np.array_equal(data, arr):
                        nz = int(np.count_nonzero(data)) if data.shape == arr.shape else -1
                        problems.append(
                            f'after {op!r}: {os.path.basename(paths[w])} reloads with wrong data '
                            f'(nonzero voxels {nz}/{arr.size})'
                        )
                    if not np.allclose(back.affine, aff):
                        problems.append(f'after {op!r}: {os.path.basename(paths[w])} wrong affine')
                if problems:
                    break
            # the image object is still usable
            if not problems:
                live = np.asanyarray(img.dataobj)
                if not np.array_equal(live, arr):
                    problems.append('live image no longer yields its data')
            del img
        if problems:
            n_bad += 1
            print('FAIL ' + case + ' :: ' + '; '.join(problems), flush=True)
        else:
            print('OK', flush=True)
    return 1 if n_bad else 0


def main():
    env = dict(os.environ)
    failures = []
    for i, fmt in enumerate(FORMATS):
        proc = subprocess.run(
            [sys.executable, os.path.abspath(__file__), '--child', str(i)],
            env=env, stdout=subprocess.PIPE, stderr=subprocess.PIPE, text=True,
        )
        lines = [ln for ln in proc.stdout.splitlines() if ln]
        n_ok = sum(ln == 'OK' for ln in lines)
        fails = [ln[5:] for ln in lines if ln.startswith('FAIL ')]
        status = 'ok'
        if proc.returncode < 0:
            last = [ln for ln in lines if ln.startswith('START ')][-1][6:]
            signame = signal.Signals(-proc.returncode).name
            fails.append(f'{last} :: child process killed by {signame}')
            status = f'CRASH ({signame})'
        elif proc.returncode not in (0, 1) or (proc.returncode == 1 and not fails):
            fails.append(f'{fmt}: child exited {proc.returncode}: {proc.stderr.strip()[-800:]}')
            status = f'ERROR (exit {proc.returncode})'
        elif fails:
            status = f'FAIL ({len(fails)})'
        print(f'{fmt[0]:18s} p={fmt[1]:10s} q={fmt[2]:9s} histories ok={n_ok:4d}  {status}')
        failures.extend(fails)
    if failures:
        print(f'\n{len(failures)} failing histories; first failing input:')
        for f in failures[:5]:
            print('  ' + f)
        return 1
    print('C09: every load/save history leaves correct files and a live process')
    return 0


if __name__ == '__main__':
    if len(sys.argv) == 3 and sys.argv[1] == '--child':
        sys.exit(child(int(sys.argv[2])))
    sys.exit(main())
