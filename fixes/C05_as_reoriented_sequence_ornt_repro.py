import sys; sys.path.insert(0, sys.argv[1])
import numpy as np, nibabel as nib
img = nib.Nifti1Image(np.arange(24, dtype='i4').reshape(2, 3, 4), np.eye(4))
img.header.set_dim_info(None, None, 0)
ornt = [[2, 1], [1, 1], [0, -1]]
want = img.as_reoriented(np.array(ornt))
try:
    got = img.as_reoriented(ornt)
except TypeError as e:
    print('TypeError:', e); sys.exit(1)
ok = np.array_equal(np.asarray(got.dataobj), np.asarray(want.dataobj)) and got.header.get_dim_info() == want.header.get_dim_info() and np.array_equal(got.affine, want.affine)
print('ok' if ok else 'differs', got.header.get_dim_info()); sys.exit(0 if ok else 1)
