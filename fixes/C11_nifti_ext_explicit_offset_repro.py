"""C11 repro: NIfTI single file with extensions AND an explicit, larger vox_offset.

A single-file NIfTI image with >= 1 header extension whose ``vox_offset`` was set
by the user to more than the minimum (so there is a zero-filled gap between the
last extension and the data) must load again with the same extensions (code and
content) and the same data.

Sweep: {NIfTI-1, NIfTI-2} x {little, big endian} x extension lists (1..3
extensions, known and unknown codes, content lengths over all residues mod 16)
x gap sizes {0, 16, 32, 48, 64, 1024} x {file on disk, from_bytes}.  Gap 0 and
images without extensions are controls.  Also checks that a non-zero but invalid
extension size is still refused.

Exit status 1 (with the failing inputs printed) if any check fails, else 0.
"""

import os
import struct
import sys
import tempfile
import warnings

import numpy as np

import nibabel as nib
from nibabel.nifti1 import Nifti1Extension, Nifti1Header, Nifti1Image
from nibabel.nifti2 import Nifti2Header, Nifti2Image

warnings.simplefilter('ignore')
rng = np.random.RandomState(11)


def make_exts(spec):
    exts = []
    for code, length in spec:
        content = bytes(rng.randint(1, 255, size=length).astype('u1'))  # no NUL bytes
        exts.append((code, content))
    return exts


def build(img_klass, hdr_klass, endian, exts, gap):
    data = rng.randint(-100, 100, size=(3, 4, 5)).astype('i2')
    hdr = hdr_klass(endianness=endian)
    img = img_klass(data, np.diag([2.0, 3.0, 4.0, 1.0]), hdr)
    for code, content in exts:
        img.header.extensions.append(Nifti1Extension(code, content))
    minimum = hdr_klass.single_vox_offset + sum(
        e.get_sizeondisk() for e in img.header.extensions
    )
    if gap:
        img.header['vox_offset'] = minimum + gap
    return img, data, minimum + gap


def ext_pairs(img):
    return [(int(e.get_code()), bytes(e.content)) for e in img.header.extensions]


def main():
    tmpdir = tempfile.mkdtemp()
    failures = []
    n_cases = 0
    specs = [[]]
    specs += [[(code, length)] for code in (6, 4, 40, 9998) for length in (0, 1, 7, 8, 9, 23, 24, 40, 70)]
    specs += [[(6, 5), (40, 16)], [(4, 30), (9998, 0), (44, 9)], [(40, 8), (40, 8)]]
    for img_klass, hdr_klass in ((Nifti1Image, Nifti1Header), (Nifti2Image, Nifti2Header)):
        for endian in ('<', '>'):
            for spec in specs:
                for gap in (0, 16, 32, 48, 64, 1024):
                    exts = make_exts(spec)
                    label = (
                        f'{img_klass.__name__} endian={endian} extensions(code,len)={spec} '
                        f'gap={gap}'
                    )
                    try:
                        img, data, offset = build(img_klass, hdr_klass, endian, exts, gap)
                    except Exception as e:  # noqa: BLE001
                        failures.append(f'{label}: could not build: {type(e).__name__}: {e}')
                        continue
                    for route in ('file', 'bytes'):
                        n_cases += 1
                        where = f'{label} route={route}'
                        try:
                            if route == 'file':
                                path = os.path.join(tmpdir, f'c11_{n_cases}.nii')
                                img.to_filename(path)
                                loaded = nib.load(path)
                            else:
                                loaded = img_klass.from_bytes(img.to_bytes())
                            got_data = np.asanyarray(loaded.dataobj)
                            got_exts = ext_pairs(loaded)
                            got_offset = loaded.dataobj.offset
                            endianness = loaded.header.endianness
                        except Exception as e:  # noqa: BLE001
                            failures.append(f'{where}: {type(e).__name__}: {e}')
                            continue
                        if got_exts != exts:
                            failures.append(f'{where}: extensions {got_exts} != {exts}')
                        if not np.array_equal(got_data, data):
                            failures.append(f'{where}: data differ')
                        if got_offset != offset:
                            failures.append(f'{where}: data offset {got_offset} != {offset}')
                        if endianness != endian:
                            failures.append(f'{where}: endianness {endianness} != {endian}')

    # A non-zero but impossible extension size must still be refused.
    for img_klass, hdr_klass in ((Nifti1Image, Nifti1Header), (Nifti2Image, Nifti2Header)):
        for endian in ('<', '>'):
            img, _, _ = build(img_klass, hdr_klass, endian, make_exts([(6, 20)]), 32)
            raw = bytearray(img.to_bytes())
            at = hdr_klass.template_dtype.itemsize + 4  # esize of the first extension
            for bad in (4, 8, -16, 10**6):
                broken = bytearray(raw)
                broken[at : at + 4] = struct.pack(endian + 'i', bad)
                n_cases += 1
                try:
                    img_klass.from_bytes(bytes(broken))
                except Exception:  # noqa: BLE001
                    continue
                failures.append(
                    f'{img_klass.__name__} endian={endian}: extension size {bad} was accepted'
                )

    print(f'C11: {n_cases} cases, {len(failures)} failed checks')
    for msg in failures[:25]:
        print('FAIL', msg)
    if len(failures) > 25:
        print(f'... and {len(failures) - 25} more')
    return 1 if failures else 0


if __name__ == '__main__':
    sys.exit(main())
