"""C12 repro: file names with mixed-case extensions are rewritten on save.

For NIfTI-1 single (.nii, .nii.gz, .nii.bz2), NIfTI-1 pair and SPM Analyze
(.img / .hdr, either member named, optionally .gz) and MGH (.mgh, .mgz), in
every lower / UPPER / Mixed spelling of extension and compression suffix, in
directories with dots and spaces, as ``str`` and ``pathlib.Path``:

* ``nib.save(img, name)`` must create a file called exactly ``name``;
* every other file written differs from ``name`` only in the extension, which
  is upper case if the given extension is all upper case, else lower case;
* ``klass.filespec_to_file_map(name)`` maps the named member to ``name``;
* ``nib.load(name)`` returns the same class and data as for the all-lower-case
  spelling of the same name.

Exit status 1 (first failing inputs printed) on any disagreement, else 0.
"""

import itertools
import os
import pathlib
import sys
import tempfile

import numpy as np

import nibabel as nib
from nibabel.freesurfer import MGHImage

DATA = np.arange(24, dtype=np.float32).reshape(2, 3, 4)

# class, named extension, compression suffix, extensions of all files written
CASES = [
    (nib.Nifti1Image, '.nii', '', ['.nii']),
    (nib.Nifti1Image, '.nii', '.gz', ['.nii']),
    (nib.Nifti1Image, '.nii', '.bz2', ['.nii']),
    (nib.Nifti2Image, '.nii', '', ['.nii']),
    (nib.Nifti1Pair, '.img', '', ['.img', '.hdr']),
    (nib.Nifti1Pair, '.hdr', '', ['.img', '.hdr']),
    (nib.Nifti1Pair, '.img', '.gz', ['.img', '.hdr']),
    (nib.Nifti1Pair, '.hdr', '.gz', ['.img', '.hdr']),
    (nib.Spm2AnalyzeImage, '.img', '', ['.img', '.hdr', '.mat']),
    (nib.Spm2AnalyzeImage, '.hdr', '', ['.img', '.hdr', '.mat']),
    (MGHImage, '.mgh', '', ['.mgh']),
    (MGHImage, '.mgz', '', ['.mgz']),
]


def spellings(ext):
    """lower, UPPER and two mixed spellings of '.ext' ('' stays '')"""
    if not ext:
        return ['']
    body = ext[1:]
    mixed = {
        body.capitalize(),
        body[0].lower() + body[1:].upper(),
        ''.join(c.upper() if i % 2 else c.lower() for i, c in enumerate(body)),
    }
    return ['.' + s for s in [body.lower(), body.upper()] + sorted(mixed - {body.lower()})]


def save_and_load(img, name):
    nib.save(img, name)
    loaded = nib.load(name)
    return type(loaded), np.asarray(loaded.dataobj)


def check(klass, ext, suffix, all_exts, subdir, as_path, tmpdir):
    """Return list of failure descriptions for all spellings of one case"""
    failures = []
    img = klass(DATA, np.eye(4))
    ref_dir = os.path.join(tmpdir, 'ref', subdir)
    os.makedirs(ref_dir, exist_ok=True)
    want_type, want_data = save_and_load(img, os.path.join(ref_dir, 'f' + ext + suffix))
    n = 0
    for n, (sp_ext, sp_suffix) in enumerate(
        itertools.product(spellings(ext), spellings(suffix)), 1
    ):
        workdir = os.path.join(tmpdir, f'case{n}', subdir)
        os.makedirs(workdir)
        basename = 'f' + sp_ext + sp_suffix
        name = os.path.join(workdir, basename)
        tag = f'{klass.__name__} save/load {os.path.join(subdir, basename)!r}'
        given = pathlib.Path(name) if as_path else name
        # file map
        fmap = klass.filespec_to_file_map(given)
        if name not in [fh.filename for fh in fmap.values()]:
            failures.append(
                f'{tag}: filespec_to_file_map gives '
                f'{sorted(os.path.basename(fh.filename) for fh in fmap.values())}'
            )
        # save
        try:
            nib.save(klass(DATA, np.eye(4)), given)
        except Exception as exc:
            failures.append(f'{tag}: save raised {type(exc).__name__}: {exc}')
            continue
        listing = sorted(os.listdir(workdir))
        sibling_case = str.upper if sp_ext == sp_ext.upper() else str.lower
        want_listing = sorted(
            'f' + (sp_ext if e == ext else sibling_case(e)) + sp_suffix for e in all_exts
        )
        if listing != want_listing:
            failures.append(f'{tag}: files written {listing}, expected {want_listing}')
        # load
        try:
            loaded = nib.load(given)
            got_type, got_data = type(loaded), np.asarray(loaded.dataobj)
        except Exception as exc:
            failures.append(f'{tag}: load raised {type(exc).__name__}: {exc}')
            continue
        if got_type is not want_type:
            failures.append(f'{tag}: loaded {got_type.__name__}, expected {want_type.__name__}')
        elif not np.array_equal(got_data, want_data):
            failures.append(f'{tag}: loaded data differ')
    return n, failures


def main():
    failures = []
    n_checked = 0
    with tempfile.TemporaryDirectory() as tmpdir:
        for i, (klass, ext, suffix, all_exts) in enumerate(CASES):
            for j, (subdir, as_path) in enumerate(
                [('plain', False), ('with.dots.v1 and spaces', False), ('p.nii.gz', True)]
            ):
                casedir = os.path.join(tmpdir, f'{i}_{j}')
                os.makedirs(casedir)
                n, fails = check(klass, ext, suffix, all_exts, subdir, as_path, casedir)
                n_checked += n
                failures.extend(fails)
    print(f'checked {n_checked} file names')
    if failures:
        print(f'FAIL: {len(failures)} problems')
        for line in failures[:15]:
            print('  ' + line)
        return 1
    print('OK: named files are written under the given name and load back')
    return 0


if __name__ == '__main__':
    sys.exit(main())
