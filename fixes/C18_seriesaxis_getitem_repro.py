"""C18 repro: ``SeriesAxis[idx].time`` must equal ``SeriesAxis.time[idx]``.

Run as ``PYTHONPATH=<tree> python C18_seriesaxis_getitem_repro.py``.
Sweeps axis (start, step, size) and every slice with bounds in
[-size-3, size+3] or None and steps in +-1..3 or None.  Exits 1 (printing
failing inputs) on any mismatch in length or values, 0 otherwise.
"""
import itertools
import sys

import numpy as np

from nibabel.cifti2.cifti2_axes import SeriesAxis

STEPS = (-3, -2, -1, 1, 2, 3, None)

failures = []


def fail(msg):
    failures.append(msg)
    if len(failures) <= 10:
        print('FAIL:', msg)


def main():
    # documented example
    got = SeriesAxis(0, 1, 5)[::2].time
    if not np.array_equal(got, [0, 2, 4]):
        fail(f'SeriesAxis(0, 1, 5)[::2].time = {got.tolist()}, expected [0, 2, 4]')
    for size in range(0, 8):
        bounds = list(range(-size - 3, size + 4)) + [None]
        for ax_start, ax_step, unit in ((0, 1, 'SECOND'), (3, 10, 'HERTZ'), (-2.5, 0.5, 'SECOND'), (7, -2, 'METER')):
            axis = SeriesAxis(ax_start, ax_step, size, unit)
            for start, stop, step in itertools.product(bounds, bounds, STEPS):
                idx = slice(start, stop, step)
                desc = f'SeriesAxis({ax_start}, {ax_step}, {size})[{start}:{stop}:{step}]'
                expected = axis.time[idx]
                try:
                    new = axis[idx]
                except Exception as e:  # noqa
                    fail(f'{desc}: raised {type(e).__name__}: {e}')
                    continue
                if not isinstance(new, SeriesAxis) or new.unit != unit:
                    fail(f'{desc}: returned {new!r}')
                    continue
                if len(new) != len(expected) or len(new.time) != len(expected):
                    fail(f'{desc}: {len(new)} elements {new.time.tolist()}, expected {expected.tolist()}')
                elif len(expected) and not np.array_equal(new.time, expected):
                    fail(f'{desc}: time {new.time.tolist()}, expected {expected.tolist()}')
            # integer indices: in range equal, out of range IndexError
            for i in range(-size - 3, size + 4):
                try:
                    got = axis[i]
                except IndexError:
                    if -size <= i < size:
                        fail(f'SeriesAxis({ax_start}, {ax_step}, {size})[{i}]: IndexError')
                else:
                    if not -size <= i < size or got != axis.time[i]:
                        fail(f'SeriesAxis({ax_start}, {ax_step}, {size})[{i}] = {got}')
    if failures:
        print(f'{len(failures)} failing checks (first 10 shown)')
        sys.exit(1)
    print('C18 repro: SeriesAxis slicing agrees with NumPy slicing of .time')
    sys.exit(0)


if __name__ == '__main__':
    main()
