import sys; sys.path.insert(0, sys.argv[1])
import io, numpy as np, nibabel as nib
from nibabel.nifti1 import Nifti1Extension
bad = 0
for H, I in ((nib.Nifti1Header, nib.Nifti1Image), (nib.Nifti2Header, nib.Nifti2Image), (nib.nifti1.Nifti1PairHeader, nib.Nifti1Pair)):
    hdr = H(extensions=[Nifti1Extension(6, b'comment one'), Nifti1Extension(4, b'afni')])
    for e in (None, '<', '>'):
        sw = hdr.as_byteswapped(e)
        got = [(x.get_code(), x.get_content()) for x in sw.extensions]
        want = [(x.get_code(), x.get_content()) for x in hdr.extensions]
        if got != want:
            print(H.__name__, e, 'extensions lost by as_byteswapped:', got); bad = 1
    # save an image in the other byte order through a byte-swapped header
    img = I(np.arange(24, dtype='i2').reshape(2, 3, 4), np.eye(4), header=hdr.as_byteswapped())
    fm = I.make_file_map()
    for k in fm: fm[k].fileobj = io.BytesIO()
    img.to_file_map(fm)
    back = I.from_file_map(fm)
    got = [(x.get_code(), x.get_content().rstrip(b'\0')) for x in back.header.extensions]
    if got != [(6, b'comment one'), (4, b'afni')]:
        print(I.__name__, 'save/load through a byte-swapped header lost extensions:', got); bad = 1
sys.exit(bad)
