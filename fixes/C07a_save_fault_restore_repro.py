#!/usr/bin/env python
"""C07a: a failed save must leave the image exactly as it was.

For every image class and for every k, an ``OSError(ENOSPC)`` is raised at the
k-th ``write`` / ``seek`` / ``tell`` / ``close`` call made on the destination
file object(s) during ``img.to_file_map(...)``.  After the failure the image
must have the same header bytes, data dtype, slope / intercept, data offset,
data and affine as before, and a retry to a healthy destination must produce
exactly the bytes that a first clean save of a fresh identical image produces.

Exit status 0: property holds.  Exit status 1: first failing input printed.

Run as ``PYTHONPATH=<tree under test> /venv/bin/python <this file>``.
"""

import errno
import io
import sys
import warnings

import numpy as np

import nibabel as nib
from nibabel.fileholders import FileHolder
from nibabel.openers import ImageOpener

warnings.simplefilter('ignore')


class Budget:
    """Shared call counter: raises at the `fail_at`-th counted I/O call"""

    def __init__(self, fail_at=None):
        self.fail_at = fail_at
        self.count = 0
        self.log = []

    def tick(self, what):
        self.count += 1
        self.log.append(what)
        if self.fail_at is not None and self.count == self.fail_at:
            raise OSError(errno.ENOSPC, f'No space left on device (injected at call {self.count}: {what})')


class FaultyFile:
    """File object writing into a BytesIO; counted calls may raise OSError"""

    def __init__(self, name, budget):
        self.name_ = name
        self.budget = budget
        self.bio = io.BytesIO()
        self.closed_ = False

    def write(self, b):
        self.budget.tick(f'{self.name_}.write')
        return self.bio.write(b)

    def seek(self, *args):
        self.budget.tick(f'{self.name_}.seek')
        return self.bio.seek(*args)

    def tell(self):
        self.budget.tick(f'{self.name_}.tell')
        return self.bio.tell()

    def close(self):
        self.budget.tick(f'{self.name_}.close')
        self.closed_ = True

    def read(self, *args):
        return self.bio.read(*args)

    def flush(self):
        pass

    def __getattr__(self, name):
        return getattr(self.bio, name)


class FaultyHolder(FileHolder):
    """FileHolder handing out an Opener that owns (so closes) a FaultyFile"""

    def __init__(self, name, budget):
        self.ff = FaultyFile(name, budget)
        # distinct fileobj per holder, so ``same_file_as`` works as for real files
        super().__init__(fileobj=self.ff)

    def get_prepare_fileobj(self, *args, **kwargs):
        self.ff.bio.seek(0)
        self.ff.bio.truncate()  # mode 'wb'
        opener = ImageOpener(self.ff)
        opener.me_opened = True  # behave as for a file opened from a file name
        return opener


def faulty_map(klass, budget):
    return {key: FaultyHolder(key, budget) for key, _ in klass.files_types}


def map_bytes(fmap):
    return {key: fh.ff.bio.getvalue() for key, fh in fmap.items()}


# ---------------------------------------------------------------------------
# image factories: each call returns a fresh, identical image
# ---------------------------------------------------------------------------
def _float_data():
    rng = np.random.RandomState(42)
    return (rng.uniform(-300, 900, size=(5, 4, 3))).astype(np.float64)


def _pos_float_data():
    rng = np.random.RandomState(42)
    return (rng.uniform(10, 900, size=(5, 4, 3))).astype(np.float64)


AFF = np.array([[2.0, 0, 0, -10], [0, 3, 0, -20], [0, 0, 4, -30], [0, 0, 0, 1]])


def mk_scaled(klass, data_func, with_ext=False):
    def factory():
        img = klass(data_func(), AFF)
        img.set_data_dtype(np.int16)
        if with_ext:
            img.header.extensions.append(nib.nifti1.Nifti1Extension('comment', b'hello world'))
        return img

    return factory


def mk_plain(klass, dtype):
    def factory():
        return klass(_float_data().astype(dtype), AFF)

    return factory


def mk_cifti():
    from nibabel.cifti2 import cifti2_axes as axes

    def factory():
        bm = axes.BrainModelAxis.from_mask(np.ones((2, 2, 2), bool), affine=np.eye(4))
        ser = axes.SeriesAxis(0, 1, 3)
        data = np.random.RandomState(1).uniform(-5, 5, (3, 8))
        return nib.Cifti2Image(data, header=(ser, bm))

    return factory


CASES = [
    # label, factory, to_file_map kwargs
    ('Nifti1Image f8->i2', mk_scaled(nib.Nifti1Image, _float_data), {}),
    ('Nifti1Image f8->i2 +ext', mk_scaled(nib.Nifti1Image, _float_data, True), {}),
    ('Nifti1Pair f8->i2', mk_scaled(nib.Nifti1Pair, _float_data), {}),
    ('Nifti2Image f8->i2', mk_scaled(nib.Nifti2Image, _float_data), {}),
    ('Nifti2Pair f8->i2', mk_scaled(nib.Nifti2Pair, _float_data), {}),
    ('Nifti1Image f8, dtype=i2', mk_plain(nib.Nifti1Image, np.float64), {'dtype': np.int16}),
    ('Nifti1Pair f8, dtype=u1', mk_plain(nib.Nifti1Pair, np.float64), {'dtype': np.uint8}),
    ('Nifti2Image f8, dtype=i2', mk_plain(nib.Nifti2Image, np.float64), {'dtype': np.int16}),
    ('AnalyzeImage f4', mk_plain(nib.AnalyzeImage, np.float32), {}),
    ('AnalyzeImage f8, dtype=f4', mk_plain(nib.AnalyzeImage, np.float64), {'dtype': np.float32}),
    ('Spm99AnalyzeImage f8->i2', mk_scaled(nib.Spm99AnalyzeImage, _pos_float_data), {}),
    ('Spm2AnalyzeImage f8->i2', mk_scaled(nib.Spm2AnalyzeImage, _pos_float_data), {}),
    (
        'Spm2AnalyzeImage f8, dtype=i2',
        lambda: nib.Spm2AnalyzeImage(_pos_float_data(), AFF),
        {'dtype': np.int16},
    ),
    ('MGHImage f4', mk_plain(nib.MGHImage, np.float32), {}),
    ('Cifti2Image f8', mk_cifti(), {}),
]


def nifti_header_of(img):
    if isinstance(img, nib.Cifti2Image):
        return img.nifti_header
    return img.header


def state(img):
    hdr = nifti_header_of(img)
    st = {
        'header bytes': hdr.binaryblock,
        'data dtype': str(img.get_data_dtype()),
        'data offset': hdr.get_data_offset(),
        'data': np.asanyarray(img.dataobj).tobytes(),
    }
    if hasattr(hdr, 'get_slope_inter'):
        try:
            st['slope/inter'] = repr(hdr.get_slope_inter())
        except Exception as e:  # pragma: no cover
            st['slope/inter'] = repr(e)
    if hasattr(img, 'affine'):
        st['affine'] = np.asarray(img.affine).tobytes()
    exts = getattr(hdr, 'extensions', None)
    if exts is not None:
        st['extensions'] = repr([(e.get_code(), e.get_sizeondisk()) for e in exts])
    return st


def diff_state(a, b):
    return [k for k in a if a[k] != b[k]]


def check_case(label, factory, kwargs):
    """Return list of failure descriptions (empty if the property holds)"""
    klass = type(factory())
    # reference: first clean save of a fresh image
    ref_budget = Budget()
    ref_map = faulty_map(klass, ref_budget)
    factory().to_file_map(ref_map, **kwargs)
    ref_bytes = map_bytes(ref_map)
    n_calls = ref_budget.count
    if n_calls == 0:
        return [f'{label}: harness saw no I/O calls']
    failures = []
    for k in range(1, n_calls + 1):
        img = factory()
        if isinstance(img, nib.Cifti2Image):
            # the first save attempt normalises the NIfTI-2 header (intent, pixdim,
            # extension); take the reference state after that normalisation
            img.to_file_map(faulty_map(klass, Budget()), **kwargs)
        before = state(img)
        budget = Budget(fail_at=k)
        fmap = faulty_map(klass, budget)
        try:
            img.to_file_map(fmap, **kwargs)
        except OSError as e:
            if 'injected' not in str(e):  # seek_tell re-raises without errno
                raise
        else:
            # nibabel absorbed the error (``seek_tell(..., write0=True)`` falls back
            # to writing zeros when seek fails): then the save must be a good one
            where = f'{label}: absorbed OSError at I/O call k={k} ({ref_budget.log[k - 1]})'
            if map_bytes(fmap) != ref_bytes:
                failures.append(f'{where}: output differs from a clean save')
            changed = diff_state(before, state(img))
            if changed:
                failures.append(f'{where}: image state changed: {changed}')
            continue
        where = f'{label}: OSError at I/O call k={k} ({budget.log[-1]})'
        changed = diff_state(before, state(img))
        if changed:
            failures.append(f'{where}: image state changed by failed save: {changed}')
        # retry on a healthy destination
        retry_map = faulty_map(klass, Budget())
        img.to_file_map(retry_map, **kwargs)
        if map_bytes(retry_map) != ref_bytes:
            failures.append(f'{where}: retry to healthy destination differs from a first clean save')
        changed = diff_state(before, state(img))
        if changed:
            failures.append(f'{where}: image state changed after healthy retry: {changed}')
    return failures


def check_header_error():
    """A save refused while writing the header (not an I/O error) restores too"""
    from nibabel.spatialimages import HeaderDataError

    label = 'Nifti1Image vox_offset=16, dtype=i2'
    img = nib.Nifti1Image(_float_data(), AFF)
    img.header.set_data_offset(16)  # too low: header write refuses
    before = state(img)
    try:
        img.to_file_map(faulty_map(nib.Nifti1Image, Budget()), dtype=np.int16)
    except HeaderDataError:
        pass
    else:
        return [f'{label}: expected HeaderDataError']
    changed = diff_state(before, state(img))
    if changed:
        return [f'{label}: HeaderDataError during save: image state changed: {changed}']
    return []


def main():
    all_failures = []
    for label, factory, kwargs in CASES:
        fails = check_case(label, factory, kwargs)
        print(f'{label:34s} {"FAIL (%d)" % len(fails) if fails else "ok"}')
        all_failures.extend(fails)
    fails = check_header_error()
    print(f'{"refused header write":34s} {"FAIL (%d)" % len(fails) if fails else "ok"}')
    all_failures.extend(fails)
    if all_failures:
        print(f'\n{len(all_failures)} failures; first failing input:')
        print('  ' + all_failures[0])
        for f in all_failures[1:6]:
            print('  ' + f)
        return 1
    print('C07a: all fault points leave the image unchanged and retries are correct')
    return 0


if __name__ == '__main__':
    sys.exit(main())
