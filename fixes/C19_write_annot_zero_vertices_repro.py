"""C19 repro: ``nibabel.freesurfer.write_annot`` with zero vertices.

Writes annotations with 0..5 vertices (labels drawn from ``{-1} | [0, n)``,
including the all-unlabelled case) for colour tables of 1..4 entries, with and
without ``fill_ctab``, and reads them back with ``read_annot``.  Expected:
labels, colour table and names are returned unchanged.

Exit status 1 (first failing inputs printed) on any disagreement, else 0.
"""

import itertools
import os
import sys
import tempfile
import warnings

import numpy as np

from nibabel.freesurfer import read_annot, write_annot


def main():
    rng = np.random.default_rng(19)
    failures = []
    n_checked = 0
    with tempfile.TemporaryDirectory() as tmpdir:
        path = os.path.join(tmpdir, 'lh.test.annot')
        for n_labels, n_vert, fill_ctab in itertools.product(
            range(1, 5), range(0, 6), (True, False)
        ):
            # distinct, non-zero packed colours
            rgbt = np.array([[10 * (i + 1), 20 + i, 30 + i, 0] for i in range(n_labels)])
            packed = rgbt[:, [0]] + rgbt[:, [1]] * 2**8 + rgbt[:, [2]] * 2**16
            ctab = np.hstack((rgbt, packed))
            names = [f'label-{i}' for i in range(n_labels)]
            label_sets = [rng.integers(-1, n_labels, size=n_vert) for _ in range(3)]
            label_sets.append(np.full(n_vert, -1, dtype=int))
            label_sets.append(np.zeros(n_vert, dtype=int))
            for labels in sorted({tuple(ls.tolist()) for ls in label_sets}):
                labels = np.asarray(labels, dtype=int)
                n_checked += 1
                case = (
                    f'labels={labels.tolist()} n_ctab_entries={n_labels} fill_ctab={fill_ctab}'
                )
                try:
                    with warnings.catch_warnings():
                        warnings.simplefilter('error')
                        write_annot(
                            path, labels, ctab if not fill_ctab else ctab[:, :4], names, fill_ctab
                        )
                        labels2, ctab2, names2 = read_annot(path)
                except Exception as exc:
                    failures.append(f'{case}: raised {type(exc).__name__}: {exc}')
                    continue
                names2 = [n.decode() for n in names2]
                if not (
                    labels2.shape == labels.shape
                    and np.array_equal(labels2, labels)
                    and np.array_equal(ctab2, ctab)
                    and names2 == names
                ):
                    failures.append(
                        f'{case}: read back labels={labels2.tolist()} '
                        f'ctab={ctab2.tolist()} names={names2}'
                    )
    print(f'checked {n_checked} annotations')
    if failures:
        print(f'FAIL: {len(failures)} annotations did not round-trip')
        for line in failures[:10]:
            print('  ' + line)
        return 1
    print('OK: every annotation (including zero vertices) round-trips')
    return 0


if __name__ == '__main__':
    sys.exit(main())
