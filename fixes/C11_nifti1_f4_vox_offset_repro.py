import numpy as np, nibabel as nib, tempfile, os
from nibabel.nifti1 import Nifti1Extension
d=tempfile.mkdtemp()
img=nib.Nifti1Image(np.arange(1,6,dtype=np.uint8), np.eye(4))
img.header.extensions.append(Nifti1Extension(6, b'\x07'*268435488))
f=os.path.join(d,'x.nii'); img.to_filename(f)
im2=nib.load(f)
print('offset', im2.dataobj.offset, 'data', np.asarray(im2.dataobj).tolist(), 'ext ok', im2.header.extensions[0].get_content()==b'\x07'*268435488, len(im2.header.extensions))
os.remove(f); os.rmdir(d)
