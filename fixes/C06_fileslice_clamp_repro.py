"""C06 repro: fileslice / fill_slicer / _positive_slice vs NumPy indexing.

Run as ``PYTHONPATH=<tree> python C06_fileslice_clamp_repro.py``.
Exits 1 (printing failing inputs) if any case disagrees with NumPy or reads
outside the array's byte extent; exits 0 otherwise.
"""
import itertools
import operator
import random
import sys
from functools import reduce
from io import BytesIO
from numbers import Integral

import numpy as np

from nibabel import fileslice as fs

DTYPE = np.dtype('<i4')
OFFSET = 11
STEPS = (-3, -2, -1, 1, 2, 3, None)
HEURISTICS = {
    'full': lambda *a: 'full',
    # 'contiguous' is documented as invalid for an integer index
    'contiguous': lambda s, *a: 'full' if isinstance(s, Integral) else 'contiguous',
    'none': lambda *a: None,
    'threshold': fs.threshold_heuristic,
    'threshold8': lambda s, n, stride: fs.threshold_heuristic(s, n, stride, skip_thresh=8),
}


class RecFile:
    """File object recording (position, length) of every read"""

    def __init__(self, data):
        self._f = BytesIO(data)
        self.reads = []

    def seek(self, pos, whence=0):
        return self._f.seek(pos, whence)

    def tell(self):
        return self._f.tell()

    def read(self, n=-1):
        self.reads.append((self._f.tell(), n))
        return self._f.read(n)


def make_file(arr, order):
    junk = b'\xa5' * OFFSET
    return RecFile(junk + arr.tobytes(order=order) + b'\x5a' * 64)


def fileslice_h(fobj, idx, shape, order, heuristic):
    # As fileslice(), but passing `heuristic` on to calc_slicedefs
    segments, sliced_shape, post = fs.calc_slicedefs(
        idx, shape, DTYPE.itemsize, OFFSET, order, heuristic
    )
    n_bytes = reduce(operator.mul, sliced_shape, 1) * DTYPE.itemsize
    data = fs.read_segments(fobj, segments, n_bytes)
    return np.ndarray(sliced_shape, DTYPE, buffer=data, order=order)[post]


failures = []


def fail(msg):
    failures.append(msg)
    if len(failures) <= 10:
        print('FAIL:', msg)


def check_case(arr, idx, order):
    shape = arr.shape
    try:
        expected = arr[idx]
    except IndexError:  # out-of-range integer index
        return check_raises(arr, idx, order)
    nbytes = arr.size * DTYPE.itemsize
    for hname, heur in HEURISTICS.items():
        for via in ('fileslice', 'calc_slicedefs'):
            fobj = make_file(arr, order)
            desc = f'shape={shape} idx={idx} order={order} heuristic={hname} via={via}'
            try:
                if via == 'fileslice':
                    got = fs.fileslice(fobj, idx, shape, DTYPE, OFFSET, order, heur)
                else:
                    got = fileslice_h(fobj, idx, shape, order, heur)
            except Exception as e:  # noqa
                fail(f'{desc}: raised {type(e).__name__}: {e}')
                continue
            if got.shape != expected.shape or not np.array_equal(got, expected):
                fail(f'{desc}: got {got.tolist()} expected {expected.tolist()}')
            for pos, length in fobj.reads:
                if length < 0 or pos < OFFSET or pos + length > OFFSET + nbytes:
                    fail(f'{desc}: read ({pos}, {length}) outside [{OFFSET}, {OFFSET + nbytes})')
    # helper predictions
    try:
        pshape = fs.predict_shape(idx, shape)
    except Exception as e:  # noqa
        fail(f'predict_shape({idx}, {shape}) raised {type(e).__name__}: {e}')
    else:
        if pshape != expected.shape:
            fail(f'predict_shape({idx}, {shape}) = {pshape}, expected {expected.shape}')
    can = fs.canonical_slicers(idx, shape)
    if not np.array_equal(arr[can], expected) or arr[can].shape != expected.shape:
        fail(f'canonical_slicers({idx}, {shape}) = {can} selects differently')


def check_raises(arr, idx, order):
    # NumPy refuses `idx`; so must fileslice and the helpers, without reading
    shape = arr.shape
    for hname, heur in HEURISTICS.items():
        for via in ('fileslice', 'calc_slicedefs'):
            fobj = make_file(arr, order)
            desc = f'shape={shape} idx={idx} order={order} heuristic={hname} via={via}'
            try:
                if via == 'fileslice':
                    got = fs.fileslice(fobj, idx, shape, DTYPE, OFFSET, order, heur)
                else:
                    got = fileslice_h(fobj, idx, shape, order, heur)
            except (ValueError, IndexError):
                pass
            except Exception as e:  # noqa
                fail(f'{desc}: raised {type(e).__name__}: {e}')
            else:
                fail(f'{desc}: returned {got.tolist()} where NumPy raises IndexError')
            if fobj.reads:
                fail(f'{desc}: reads {fobj.reads} for an out-of-range index')
    for func in (fs.predict_shape, fs.canonical_slicers):
        try:
            res = func(idx, shape)
        except (ValueError, IndexError):
            pass
        else:
            fail(f'{func.__name__}({idx}, {shape}) = {res} where NumPy raises IndexError')


def check_axis_helpers(n, slicer):
    ref = np.arange(n)[slicer]
    if fs.slice2len(slicer, n) != len(ref):
        fail(f'slice2len({slicer}, {n}) = {fs.slice2len(slicer, n)}, expected {len(ref)}')
    full = fs.fill_slicer(slicer, n)
    if fs._full_slicer_len(full) != len(ref):
        fail(f'_full_slicer_len(fill_slicer({slicer}, {n})={full}) != {len(ref)}')
    if not np.array_equal(np.arange(n)[full], ref):
        fail(f'fill_slicer({slicer}, {n}) = {full} selects {np.arange(n)[full].tolist()}')
    pos = fs._positive_slice(full)
    if pos.step <= 0 or not np.array_equal(np.arange(n)[pos], np.sort(ref)):
        fail(f'_positive_slice({full}) = {pos} for {slicer} on length {n}')


def bounds(n, pad):
    return list(range(-n - pad, n + pad + 1)) + [None]


def sweep_1d():
    for n in range(0, 7):
        arr = np.arange(n, dtype=DTYPE)
        for start, stop, step in itertools.product(bounds(n, 3), bounds(n, 3), STEPS):
            slicer = slice(start, stop, step)
            check_axis_helpers(n, slicer)
            check_case(arr, (slicer,), 'C')
        for i in range(-n - 3, n + 4):
            check_case(arr, (i,), 'C')


def rand_index(rng, n):
    kind = rng.random()
    if kind < 0.12 and n > 0:
        return rng.randrange(-n, n)
    if kind < 0.15:
        return rng.randrange(-n - 3, n + 4)
    if kind < 0.2:
        return slice(None)
    b = bounds(n, 3)
    return slice(rng.choice(b), rng.choice(b), rng.choice(STEPS))


def sweep_nd():
    # exhaustive 2-D over a reduced alphabet
    for shape in ((3, 2), (1, 4), (0, 3)):
        arr = np.arange(int(np.prod(shape)), dtype=DTYPE).reshape(shape)
        axes = []
        for n in shape:
            vals = sorted({-n - 2, -n - 1, -n, -1, 0, 1, n - 1, n, n + 2}) + [None]
            axes.append([slice(a, b, c) for a in vals for b in vals for c in (-2, -1, 2, None)])
        rng = random.Random(shape[0] * 10 + shape[1])
        for s0 in rng.sample(axes[0], 40):
            for s1 in rng.sample(axes[1], 40):
                for order in 'CF':
                    check_case(arr, (s0, s1), order)
    # random 2-D / 3-D
    rng = random.Random(20240606)
    for _ in range(6000):
        ndim = rng.choice((2, 3))
        shape = tuple(rng.randrange(0, 6) for _ in range(ndim))
        arr = np.arange(int(np.prod(shape)), dtype=DTYPE).reshape(shape)
        idx = tuple(rand_index(rng, n) for n in shape)
        if rng.random() < 0.1:
            cut = rng.randrange(0, ndim)
            idx = idx[:cut] + (Ellipsis,)
        for order in 'CF':
            check_case(arr, idx, order)


if __name__ == '__main__':
    sweep_1d()
    sweep_nd()
    if failures:
        print(f'{len(failures)} failing checks (first 10 shown)')
        sys.exit(1)
    print('C06 repro: all cases agree with NumPy; all reads within extent')
    sys.exit(0)
