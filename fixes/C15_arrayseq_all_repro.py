"""C15 repro: ArraySequence must behave like a list of arrays under any history.

One source, four scripts; they differ only in the DEFECT constant below:

  'a'   growing a view (append/extend) must not alter the sequence it was
        taken from, and the view must hold its old elements plus the new ones
  'b'   an in-place operator on a view must reach all or none of the elements
        it shares with another sequence, and the view must show the result
  'c'   a sequence built only from zero-row elements must be copyable
  'all' everything together (needs the three patches)

Each script runs (1) a targeted sweep for its defect and (2) a seeded mini
differential test: random operation histories of length <= 8 over several live
sequences (parents, views, views of views, copies), checked after every step
against a reference made of plain Python lists of numpy arrays.  For 'a', 'b'
and 'c' the operation alphabet of (2) leaves out the operations that trigger
the two *other* defects, so that each script passes with only its own patch.

Reference model.  Every element carries an identity; slicing/indexing shares
identities, append/extend/copy/arithmetic create new ones, zero-row elements
are never stored.  Rules checked after every step, on every live sequence:
  * the sequence operated on holds exactly the expected elements;
  * growing a sequence changes no other sequence;
  * a write (setitem, in-place operator) through S changes in another sequence
    R only elements shared with S, and either all of those or none of them
    (none = R does not share S's buffer any more, e.g. after a reallocation).

Exit status 1 (with the failing inputs printed) if any check fails, else 0.
"""

import sys
import warnings

import numpy as np

from nibabel.streamlines.array_sequence import ArraySequence
from nibabel.streamlines.tractogram import Tractogram

DEFECT = 'all'

GROW_VIEWS = DEFECT in ('a', 'all')
INPLACE_OPS = DEFECT in ('b', 'all')
ZERO_ROW = DEFECT in ('c', 'all')
N_HISTORIES = 1500
MAX_STEPS = 8
MAX_LIVE = 6

warnings.simplefilter('ignore')


def contents(seq):
    return [np.array(e) for e in seq]


def same_list(got, expected):
    return len(got) == len(expected) and all(
        g.shape == e.shape and g.dtype == e.dtype and np.array_equal(g, e)
        for g, e in zip(got, expected)
    )


def show(arrays):
    return '[' + ', '.join(str(np.asarray(a).tolist()) for a in arrays) + ']'


# --------------------------------------------------------------------------
# (2) seeded differential test
# --------------------------------------------------------------------------
class Live:
    """An ArraySequence under test + its reference: a list of [identity, array]."""

    def __init__(self, name, seq, items, is_view):
        self.name = name
        self.seq = seq
        self.items = items
        self.is_view = is_view

    def expected(self):
        return [v for _, v in self.items]


class Mismatch(Exception):
    pass


class History:
    def __init__(self, seed):
        self.seed = seed
        self.rng = np.random.RandomState(seed)
        self.dtype = np.dtype(['f8', 'i8'][self.rng.randint(2)])
        self.common = [(3,), (2,), (), (2, 2)][self.rng.randint(4)]
        self.live = []
        self.log = []
        self.next_id = 0
        self.next_val = 1

    # -- helpers -----------------------------------------------------------
    def new_array(self, rows):
        n = int(np.prod((rows,) + self.common))
        arr = (np.arange(n) + self.next_val).reshape((rows,) + self.common).astype(self.dtype)
        self.next_val += n + 1
        return arr

    def new_elements(self, k):
        lo = 0 if ZERO_ROW else 1
        return [self.new_array(self.rng.randint(lo, 4)) for _ in range(k)]

    def new_items(self, arrays):
        items = []
        for a in arrays:
            if len(a):  # zero-row elements are never stored
                items.append([self.next_id, a.astype(self.dtype)])
                self.next_id += 1
        return items

    def add(self, seq, items, is_view):
        live = Live(f's{len(self.live)}', seq, items, is_view)
        self.live.append(live)
        return live

    def fail(self, msg):
        raise Mismatch(msg)

    def check_unchanged(self, skip=None):
        for r in self.live:
            if r is skip:
                continue
            got = contents(r.seq)
            if not same_list(got, r.expected()):
                self.fail(f'{r.name} is {show(got)}, expected {show(r.expected())}')
            for i in range(len(r.items)):
                if not np.array_equal(r.seq[i], r.items[i][1]):
                    self.fail(f'{r.name}[{i}] is {show([r.seq[i]])}')
            if len(r.seq) != len(r.items) or r.seq.total_nb_rows != sum(
                len(v) for v in r.expected()
            ):
                self.fail(f'{r.name}: wrong len()/total_nb_rows')

    def check_write(self, target, written):
        """`written`: identity -> new value, as written through `target`."""
        for pos, (ident, _) in enumerate(target.items):
            if ident in written:
                target.items[pos][1] = written[ident]
        got = contents(target.seq)
        if not same_list(got, target.expected()):
            self.fail(f'{target.name} is {show(got)}, expected {show(target.expected())}')
        for r in self.live:
            if r is target:
                continue
            got = contents(r.seq)
            if len(got) != len(r.items):
                self.fail(f'{r.name} changed length')
            n_new = n_old = 0
            for pos, (ident, old) in enumerate(r.items):
                g = got[pos]
                if ident in written:
                    new = written[ident]
                    if g.shape == new.shape and g.dtype == new.dtype and np.array_equal(g, new):
                        n_new += 1
                    elif g.shape == old.shape and g.dtype == old.dtype and np.array_equal(g, old):
                        n_old += 1
                    else:
                        self.fail(f'{r.name}[{pos}] is {show([g])}: neither old nor new value')
                elif not (g.shape == old.shape and np.array_equal(g, old)):
                    self.fail(
                        f'{r.name}[{pos}] is {show([g])}, expected {show([old])} '
                        f'(element not shared with {target.name})'
                    )
            if n_new and n_old:
                self.fail(
                    f'write through {target.name} reached only {n_new} of the {n_new + n_old} '
                    f'elements it shares with {r.name}: {r.name} is {show(got)}'
                )
            if n_new:
                for pos, (ident, _) in enumerate(r.items):
                    if ident in written:
                        r.items[pos][1] = written[ident]

    # -- operations --------------------------------------------------------
    def op_create(self):
        arrays = self.new_elements(self.rng.randint(0, 5))
        how = self.rng.randint(4)
        if how == 0:
            self.log.append(f'new = ArraySequence({show(arrays)})')
            seq = ArraySequence(arrays)
        elif how == 1:
            self.log.append(f'new = ArraySequence(); new.append(e) for e in {show(arrays)}')
            seq = ArraySequence()
            for a in arrays:
                seq.append(a)
        elif how == 2:
            self.log.append(f'new = ArraySequence(generator over {show(arrays)})')
            seq = ArraySequence(a for a in arrays)
        else:
            self.log.append(f'new = ArraySequence(); new.extend({show(arrays)})')
            seq = ArraySequence()
            seq.extend(arrays)
        self.add(seq, self.new_items(arrays), is_view=False)
        self.check_unchanged()

    def pick(self, growable=False, nonempty=False):
        cands = [
            r
            for r in self.live
            if (not growable or GROW_VIEWS or not r.is_view) and (not nonempty or r.items)
        ]
        return cands[self.rng.randint(len(cands))] if cands else None

    def op_append(self):
        t = self.pick(growable=True)
        if t is None:
            return
        arr = self.new_elements(1)[0]
        cached = bool(self.rng.randint(2))
        self.log.append(f'{t.name}.append({show([arr])[1:-1]}, cache_build={cached})')
        t.seq.append(arr, cache_build=cached)
        if cached:
            t.seq.finalize_append()
        t.items.extend(self.new_items([arr]))
        if len(arr):
            t.is_view = False  # it now has its own data
        self.check_unchanged()

    def op_extend(self):
        t = self.pick(growable=True)
        if t is None:
            return
        if self.rng.randint(3) == 0 and len(self.live) > 1:
            other = self.live[self.rng.randint(len(self.live))]
            if other is t:
                return
            arrays = [v.copy() for v in other.expected()]
            self.log.append(f'{t.name}.extend({other.name})')
            t.seq.extend(other.seq)
        else:
            arrays = self.new_elements(self.rng.randint(0, 4))
            self.log.append(f'{t.name}.extend({show(arrays)})')
            t.seq.extend(arrays)
        t.items.extend(self.new_items(arrays))
        if any(len(a) for a in arrays):
            t.is_view = False
        self.check_unchanged()

    def random_index(self, n):
        kind = self.rng.randint(4)
        if kind == 0 or n == 0:
            bounds = [None] + list(range(-n - 1, n + 2))
            start = bounds[self.rng.randint(len(bounds))]
            stop = bounds[self.rng.randint(len(bounds))]
            step = [None, 1, 2, -1, -2, 3][self.rng.randint(6)]
            return slice(start, stop, step), f'{start}:{stop}:{step}'.replace('None', '')
        if kind == 1:
            idx = [int(i) for i in self.rng.permutation(n)[: self.rng.randint(0, n + 1)]]
            return idx, repr(idx)
        if kind == 2:
            mask = self.rng.randint(2, size=n).astype(bool)
            return mask, f'np.array({mask.tolist()})'
        idx = np.sort(self.rng.permutation(n)[: self.rng.randint(1, n + 1)])
        return idx, f'np.array({idx.tolist()})'

    def op_getitem(self):
        t = self.pick()
        if t is None:
            return
        idx, text = self.random_index(len(t.items))
        self.log.append(f'new = {t.name}[{text}]')
        seq = t.seq[idx]
        positions = np.arange(len(t.items))[idx] if len(t.items) else []
        items = [[t.items[p][0], t.items[p][1].copy()] for p in positions]
        self.add(seq, items, is_view=True)
        self.check_unchanged()

    def op_view_ctor(self):
        t = self.pick()
        if t is None:
            return
        self.log.append(f'new = ArraySequence({t.name})')
        items = [[i, v.copy()] for i, v in t.items]
        self.add(ArraySequence(t.seq), items, is_view=True)
        self.check_unchanged()

    def op_copy(self):
        t = self.pick()
        if t is None:
            return
        self.log.append(f'new = {t.name}.copy()')
        seq = t.seq.copy()
        self.add(seq, self.new_items([v.copy() for v in t.expected()]), is_view=False)
        self.check_unchanged()

    def op_setitem_int(self):
        t = self.pick(nonempty=True)
        if t is None:
            return
        i = self.rng.randint(-len(t.items), len(t.items))
        ident, old = t.items[i]
        new = self.new_array(len(old))
        self.log.append(f'{t.name}[{i}] = {show([new])[1:-1]}')
        t.seq[i] = new
        self.check_write(t, {ident: new})

    def op_setitem_many(self):
        t = self.pick(nonempty=True)
        if t is None:
            return
        idx, text = self.random_index(len(t.items))
        positions = list(np.arange(len(t.items))[idx])
        if not positions:
            return
        new = [self.new_array(len(t.items[p][1])) for p in positions]
        if self.rng.randint(2):
            self.log.append(f'{t.name}[{text}] = ArraySequence({show(new)})')
            t.seq[idx] = ArraySequence(new)
        else:
            self.log.append(f'{t.name}[{text}] = {show(new)}')
            t.seq[idx] = new
        self.check_write(t, {t.items[p][0]: v for p, v in zip(positions, new)})

    def op_inplace(self):
        t = self.pick(nonempty=True)
        if t is None:
            return
        which = self.rng.randint(4)
        if which == 3:
            other = [self.new_array(len(v)) for v in t.expected()]
            self.log.append(f'{t.name} += ArraySequence({show(other)})')
            t.seq += ArraySequence(other)
            new = [v + o for v, o in zip(t.expected(), other)]
        else:
            sym, fn = [
                ('+= 10', lambda v: v + 10),
                ('-= 7', lambda v: v - 7),
                ('*= 3', lambda v: v * 3),
            ][which]
            self.log.append(f'{t.name} {sym}')
            if which == 0:
                t.seq += 10
            elif which == 1:
                t.seq -= 7
            else:
                t.seq *= 3
            new = [fn(v) for v in t.expected()]
        self.check_write(t, {ident: v for (ident, _), v in zip(t.items, new)})

    def op_arith(self):
        t = self.pick(nonempty=True)
        if t is None:
            return
        self.log.append(f'new = {t.name} + 5')
        seq = t.seq + 5
        self.add(seq, self.new_items([v + 5 for v in t.expected()]), is_view=False)
        self.check_unchanged()

    def run(self):
        ops = [
            self.op_append,
            self.op_append,
            self.op_extend,
            self.op_extend,
            self.op_getitem,
            self.op_getitem,
            self.op_getitem,
            self.op_view_ctor,
            self.op_copy,
            self.op_setitem_int,
            self.op_setitem_many,
            self.op_arith,
        ]
        if INPLACE_OPS:
            ops += [self.op_inplace] * 3
        try:
            self.op_create()
            for _ in range(self.rng.randint(1, MAX_STEPS + 1)):
                if len(self.live) >= MAX_LIVE:
                    choices = [o for o in ops if o not in (self.op_getitem, self.op_copy)]
                else:
                    choices = ops
                choices[self.rng.randint(len(choices))]()
                if len(self.live) < 2 and self.rng.randint(4) == 0:
                    self.op_create()
        except Mismatch as e:
            return str(e)
        except Exception as e:  # noqa: BLE001 - any error on a valid history is a failure
            return f'unexpected {type(e).__name__}: {e}'
        return None


def differential():
    failures = []
    for seed in range(N_HISTORIES):
        h = History(seed)
        msg = h.run()
        if msg is not None:
            failures.append(
                f'history seed={seed} dtype={h.dtype} common_shape={h.common}:\n    '
                + '\n    '.join(h.log)
                + f'\n  -> {msg}'
            )
    return failures


# --------------------------------------------------------------------------
# (1) targeted sweeps
# --------------------------------------------------------------------------
def base_arrays(n, dtype='f8', common=(3,)):
    out, val = [], 1
    for i in range(n):
        rows = 1 + (i * 2) % 3
        size = int(np.prod((rows,) + common))
        out.append((np.arange(size) + val).reshape((rows,) + common).astype(dtype))
        val += size + 1
    return out


def view_indices(n):
    idxs = [slice(a, b, s) for a in (None, 0, 1, -2) for b in (None, 1, 2, -1) for s in (None, 2, -1)]
    idxs += [[0], [n - 1], list(range(n))[::-1], np.arange(n) % 2 == 0]
    return idxs


def sweep_a():
    failures = []
    new1 = np.full((2, 3), 777.0)
    new2 = [np.full((1, 3), 888.0), np.full((3, 3), 999.0)]
    for n in (2, 3, 5):
        for build in ('ctor', 'appends'):
            for idx in view_indices(n):
                for grow in ('append', 'append_cached', 'extend_list', 'extend_seq', 'view_of_view'):
                    arrays = base_arrays(n)
                    if build == 'ctor':
                        parent = ArraySequence(arrays)
                    else:  # leaves spare capacity in the parent's buffer
                        parent = ArraySequence()
                        for a in arrays:
                            parent.append(a)
                    view = parent[idx]
                    expected_view = [np.array(e) for e in view]
                    added = [new1]
                    if grow == 'append':
                        view.append(new1)
                    elif grow == 'append_cached':
                        view.append(new1, cache_build=True)
                        view.finalize_append()
                    elif grow == 'extend_list':
                        view.extend(new2)
                        added = new2
                    elif grow == 'extend_seq':
                        view.extend(ArraySequence(new2))
                        added = new2
                    else:
                        view = view[:]
                        view.append(new1)
                    label = f'parent of {n} ({build}), view=parent[{idx}], grown by {grow}'
                    if not same_list(contents(parent), arrays):
                        failures.append(f'{label}: parent became {show(parent)}')
                    if not same_list(contents(view), expected_view + added):
                        failures.append(f'{label}: view is {show(view)}')
                    # The parent keeps growing correctly as well.
                    parent.append(new1)
                    if not same_list(contents(parent), arrays + [new1]):
                        failures.append(f'{label}: parent after its own append is {show(parent)}')
                    if not same_list(contents(view), expected_view + added):
                        failures.append(f'{label}: view after parent append is {show(view)}')

    # ArraySequence(seq) is documented as a view too.
    arrays = base_arrays(3)
    parent = ArraySequence()
    for a in arrays:
        parent.append(a)
    v1, v2 = ArraySequence(parent), ArraySequence(parent)
    v1.append(new1)
    v2.append(new1 + 1)
    if not (
        same_list(contents(parent), arrays)
        and same_list(contents(v1), arrays + [new1])
        and same_list(contents(v2), arrays + [new1 + 1])
    ):
        failures.append(f'two ArraySequence(parent) views appended: {show(v1)} / {show(v2)}')

    # Tractogram slices that get extended.
    for idx in (slice(0, 1), slice(None, None, 2), [0], slice(1, 2)):
        sls = base_arrays(4)
        fa = [a[:, :1] * 10 for a in sls]
        mean = np.arange(4, dtype='f8').reshape(4, 1)
        t = Tractogram(sls, data_per_streamline={'m': mean}, data_per_point={'fa': fa})
        part = t[idx]
        exp_sl = [np.array(e) for e in part.streamlines]
        exp_fa = [np.array(e) for e in part.data_per_point['fa']]
        other = t[3:].copy()
        part.extend(other)
        label = f'Tractogram t[{idx}].extend(t[3:].copy())'
        if not same_list(contents(t.streamlines), sls):
            failures.append(f'{label}: parent streamlines became {show(t.streamlines)}')
        if not same_list(contents(t.data_per_point['fa']), fa):
            failures.append(f'{label}: parent data_per_point became {show(t.data_per_point["fa"])}')
        if not same_list(contents(part.streamlines), exp_sl + sls[3:]):
            failures.append(f'{label}: slice streamlines are {show(part.streamlines)}')
        if not same_list(contents(part.data_per_point['fa']), exp_fa + fa[3:]):
            failures.append(f'{label}: slice data_per_point is {show(part.data_per_point["fa"])}')
    return failures


def sweep_b():
    failures = []
    int_ops = ['__iadd__', '__isub__', '__imul__', '__ifloordiv__', '__imod__', '__ipow__']
    bit_ops = ['__ilshift__', '__irshift__', '__ior__', '__iand__', '__ixor__']
    for dtype in ('i8', 'i2', 'u1', 'f8', 'f4'):
        ops = int_ops + (bit_ops if dtype[0] in 'iu' else [])
        for n in (2, 3, 5):
            for idx in view_indices(n):
                for opname in ops:
                    for operand in ('scalar', 'float_scalar', 'sequence'):
                        arrays = base_arrays(n, dtype)
                        parent = ArraySequence(arrays)
                        view = parent[idx]
                        positions = list(np.arange(n)[idx])
                        if not positions:
                            continue
                        if operand == 'scalar':
                            value, values = 2, [2] * len(positions)
                        elif operand == 'float_scalar':
                            value, values = 2.5, [2.5] * len(positions)
                        else:
                            values = [np.full_like(arrays[p], 2) for p in positions]
                            value = ArraySequence(values)
                        label = (
                            f'dtype={dtype} parent of {n}, view=parent[{idx}], '
                            f'view.{opname}({operand})'
                        )
                        # What numpy does to each element on its own.
                        expected, raises = [], False
                        for p, v in zip(positions, values):
                            a = arrays[p].copy()
                            try:
                                a = getattr(a, opname)(v)
                            except Exception:  # noqa: BLE001
                                raises = True
                            expected.append(a)
                        try:
                            getattr(view, opname)(value)
                            raised = False
                        except Exception:  # noqa: BLE001
                            raised = True
                        if raised != raises:
                            failures.append(f'{label}: raised={raised}, numpy raises={raises}')
                            continue
                        got_parent = contents(parent)
                        if raised:
                            if not same_list(got_parent, arrays):
                                failures.append(f'{label}: raised but parent became {show(parent)}')
                            continue
                        if not same_list(contents(view), expected):
                            failures.append(
                                f'{label}: view is {show(view)}, expected {show(expected)}'
                            )
                        reached = [
                            np.array_equal(got_parent[p], e) for p, e in zip(positions, expected)
                        ]
                        untouched = [
                            np.array_equal(got_parent[p], arrays[p])
                            or np.array_equal(arrays[p], e)
                            for p, e in zip(positions, expected)
                        ]
                        others_ok = all(
                            np.array_equal(got_parent[p], arrays[p])
                            for p in range(n)
                            if p not in positions
                        )
                        if not others_ok or not (all(reached) or all(untouched)):
                            failures.append(
                                f'{label}: parent is {show(parent)} - the operation reached '
                                f'{sum(reached)} of {len(positions)} shared elements'
                            )
    return failures


def sweep_c():
    failures = []

    def builders(k, common, dtype):
        empties = [np.zeros((0,) + common, dtype=dtype) for _ in range(k)]

        def ctor():
            return ArraySequence(empties)

        def extend():
            seq = ArraySequence()
            seq.extend(empties)
            return seq

        def extend_twice():
            seq = ArraySequence()
            seq.extend(empties)
            seq.extend(empties)
            return seq

        def appends():
            seq = ArraySequence()
            for e in empties:
                seq.append(e)
            return seq

        def generator():
            return ArraySequence(e for e in empties)

        def tuple_ctor():
            return ArraySequence(tuple(empties))

        def sliced():
            return ArraySequence(empties)[:]

        return [ctor, extend, extend_twice, appends, generator, tuple_ctor, sliced]

    for k in (1, 2, 3):
        for common in ((3,), (), (2, 2)):
            for dtype in ('f8', 'f4', 'i8'):
                for build in builders(k, common, dtype):
                    label = (
                        f'{build.__name__} of {k} zero-row arrays, common shape {common}, {dtype}'
                    )
                    try:
                        seq = build()
                        cp = seq.copy()
                        data = seq.get_data()
                        if len(seq) or len(cp) or len(data) or seq.total_nb_rows != 0:
                            failures.append(f'{label}: not empty: {show(cp)}')
                        # The copy and the original remain usable.
                        arr = np.ones((2,) + common, dtype=dtype)
                        for s in (cp, seq):
                            s.append(arr)
                            s.extend([arr + 1])
                            if not same_list(contents(s.copy()), [arr, arr + 1]):
                                failures.append(f'{label}: after append/extend: {show(s)}')
                    except Exception as e:  # noqa: BLE001
                        failures.append(f'{label}: {type(e).__name__}: {e}')
    return failures


def main():
    failures = []
    if DEFECT in ('a', 'all'):
        failures += ['[view growth] ' + f for f in sweep_a()]
    if DEFECT in ('b', 'all'):
        failures += ['[in-place op on view] ' + f for f in sweep_b()]
    if DEFECT in ('c', 'all'):
        failures += ['[copy of all-empty] ' + f for f in sweep_c()]
    n_targeted = len(failures)
    failures += ['[differential] ' + f for f in differential()]
    print(
        f'C15{DEFECT}: targeted sweep: {n_targeted} failed checks; differential test '
        f'({N_HISTORIES} histories): {len(failures) - n_targeted} failed histories'
    )
    for msg in failures[:6] + failures[n_targeted : n_targeted + 4]:
        print('FAIL', msg)
    return 1 if failures else 0


if __name__ == '__main__':
    sys.exit(main())
