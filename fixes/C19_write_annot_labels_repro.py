import sys; sys.path.insert(0, sys.argv[1])
import os, tempfile, warnings, numpy as np
from nibabel.freesurfer.io import write_annot, read_annot
bad = 0
d = tempfile.mkdtemp()
ctab = np.array([[255, 0, 0, 0], [0, 255, 0, 0], [0, 0, 255, 0]])
for dt in ('u1', 'u2', 'u4', 'u8', 'i1', 'i2', 'i4', 'i8'):
    labels = np.array([0, 2, 1, 1], dtype=dt)
    p = os.path.join(d, 'a.annot')
    try:
        write_annot(p, labels, ctab, ['a', 'b', 'c'])
        l2, c2, n2 = read_annot(p)
        if not np.array_equal(l2, labels.astype('i8')):
            print(dt, 'labels differ', l2); bad = 1
    except Exception as e:
        print(dt, 'labels:', type(e).__name__, e); bad = 1
# zero vertices (fix 1b8b93eb) still fine
write_annot(p, np.zeros(0, 'i4'), ctab, ['a', 'b', 'c'])
assert len(read_annot(p)[0]) == 0
if '--empty' in sys.argv:
    try:
        write_annot(p, np.array([-1, -1, -1]), np.zeros((0, 4), 'i8'), [])
        l2, c2, n2 = read_annot(p)
        if list(l2) != [-1, -1, -1] or len(n2):
            print('empty table: read back', l2, n2); bad = 1
    except Exception as e:
        print('empty table with unlabeled vertices:', type(e).__name__, e); bad = 1
    # lists as labels keep working, -1 in a list too
    write_annot(p, [0, 1, -1], ctab, ['a', 'b', 'c'])
    if list(read_annot(p)[0]) != [0, 1, -1]:
        print('list labels with -1:', read_annot(p)[0]); bad = 1
sys.exit(bad)
