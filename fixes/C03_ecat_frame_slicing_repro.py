"""C03 repro: slicing the frame axis of a multi-frame ECAT array proxy.

Builds multi-frame ECAT7 files (1..4 frames) in a temp dir from the header and
sub-header of the ``tinypet.v`` fixture, loads them so ``img.dataobj`` is an
``EcatImageArrayProxy`` and checks, for a sweep of basic indices,

    proxy[idx]  ==  np.asarray(proxy)[idx]      (shape and values)

Exit status 1 (first failing inputs printed) if any index disagrees, else 0.

Indices whose *shape* is mis-predicted by ``nibabel.fileslice.predict_shape``
(out-of-range slice bounds; a separate ``fileslice`` defect, not the ECAT frame
loop) are counted and skipped, so that this script isolates the ECAT defect.
"""

import itertools
import os
import sys
import tempfile
import warnings

import numpy as np

import nibabel
from nibabel import ecat
from nibabel.fileslice import predict_shape

BLOCK = 512
DATA_DIR = os.path.join(os.path.dirname(nibabel.__file__), 'tests', 'data')


def write_multiframe(path, shape3, n_frames, rng):
    """Write a big-endian int16 ECAT7 file with `n_frames` frames of `shape3`"""
    with open(os.path.join(DATA_DIR, 'tinypet.v'), 'rb') as fobj:
        template = fobj.read()
    hdr = ecat.EcatHeader(template[:BLOCK], endianness='>')
    hdr['num_frames'] = n_frames
    hdr['ecat_calibration_factor'] = 2.0
    hdr['patient_orientation'] = 1  # neurological: all three axes flipped on read
    subhdr_dt = ecat.subhdr_dtype.newbyteorder('>')
    subhdr0 = np.ndarray((), dtype=subhdr_dt, buffer=template[2 * BLOCK : 3 * BLOCK]).copy()
    x, y, z = shape3
    n_data_blocks = -(-(x * y * z * 2) // BLOCK)
    # matrix list: id, sub-header block (1-based), last data block, status
    mlist = np.zeros((32, 4), dtype='>i4')
    mlist[0] = (31 - n_frames, 2, 0, n_frames)
    blk = 3
    frames = []
    out = bytearray(hdr.binaryblock)
    out += bytes(BLOCK)  # placeholder for the matrix list
    for fno in range(n_frames):
        mlist[fno + 1] = (16842752 + fno + 1, blk, blk + n_data_blocks, 1)
        sh = subhdr0.copy()
        sh['x_dimension'], sh['y_dimension'], sh['z_dimension'] = x, y, z
        sh['data_type'] = 6  # int16
        sh['scale_factor'] = 0.5 * (fno + 1)
        raw = rng.integers(-3000, 3000, size=shape3).astype('>i2')
        frames.append(raw)
        out += sh.tobytes().ljust(BLOCK, b'\0')
        out += raw.tobytes(order='F').ljust(n_data_blocks * BLOCK, b'\0')
        blk += 1 + n_data_blocks
    out[BLOCK : 2 * BLOCK] = mlist.tobytes()
    with open(path, 'wb') as fobj:
        fobj.write(out)
    return frames


def axis_indexers(n):
    """ints (incl. negative) and slices of every sign, all within [-n, n]"""
    inds = list(range(-n, n))
    bounds = [None] + list(range(-n - 1, n + 2))
    steps = [None, 1, 2, 3, -1, -2, -3]
    for start, stop, step in itertools.product(bounds, bounds, steps):
        inds.append(slice(start, stop, step))
    return inds


def show(idx):
    def one(i):
        if isinstance(i, slice):
            parts = ['' if v is None else str(v) for v in (i.start, i.stop, i.step)]
            return ':'.join(parts if i.step is not None else parts[:2])
        return {None: 'None', Ellipsis: '...'}.get(i, str(i))

    return '[' + ', '.join(one(i) for i in (idx if isinstance(idx, tuple) else (idx,))) + ']'


def index_tuples(shape, rng):
    frame_inds = axis_indexers(shape[3])
    # 1) everything on the frame axis, full spatial axes
    for f in frame_inds:
        yield (Ellipsis, f)
        yield (slice(None), slice(None), slice(None), f)
    # 2) the spellings from the defect report
    yield (Ellipsis, slice(1, None))
    yield (Ellipsis, slice(None, None, 2))
    yield (Ellipsis, slice(None, None, -1))
    yield (slice(None), 1, slice(None), slice(1, None))
    # 3) random 4-D tuples: ints / slices on all axes, optional new axes, Ellipsis
    per_axis = [axis_indexers(n) for n in shape]
    for _ in range(1500):
        idx = [cands[rng.integers(len(cands))] for cands in per_axis]
        # drop trailing / leading full axes in favour of Ellipsis sometimes
        kind = rng.integers(4)
        if kind == 0:
            idx = [Ellipsis] + idx[rng.integers(1, 4) :]
        elif kind == 1:
            idx = idx[: rng.integers(0, 4)]
        elif kind == 2:
            cut = rng.integers(1, 4)
            idx = idx[:cut] + [Ellipsis] + idx[cut + 1 :]
        for _ in range(rng.integers(0, 3)):
            idx.insert(rng.integers(0, len(idx) + 1), None)
        yield tuple(idx)


def main():
    rng = np.random.default_rng(20240929)
    failures = []
    n_checked = n_skipped = 0
    with tempfile.TemporaryDirectory() as tmpdir:
        for n_frames, shape3 in [(3, (4, 3, 2)), (1, (3, 2, 2)), (2, (2, 3, 4)), (4, (3, 3, 3))]:
            path = os.path.join(tmpdir, f'multi{n_frames}.v')
            raw_frames = write_multiframe(path, shape3, n_frames, rng)
            img = ecat.load(path)
            proxy = img.dataobj
            assert isinstance(proxy, ecat.EcatImageArrayProxy), type(proxy)
            shape = shape3 + (n_frames,)
            assert proxy.shape == shape, proxy.shape
            full = np.asarray(proxy)
            # the file really holds what we wrote (neurological flip, scale factors)
            for fno, raw in enumerate(raw_frames):
                expected = raw[::-1, ::-1, ::-1] * 2.0 * (0.5 * (fno + 1))
                assert np.array_equal(full[..., fno], expected), f'builder broken, frame {fno}'
            for idx in index_tuples(shape, rng):
                try:
                    want = full[idx]
                except IndexError:
                    continue
                try:
                    if predict_shape(idx, shape) != want.shape:
                        n_skipped += 1
                        continue
                except Exception:
                    n_skipped += 1
                    continue
                n_checked += 1
                try:
                    with warnings.catch_warnings():
                        warnings.simplefilter('ignore')
                        got = np.asarray(proxy[idx])
                except Exception as exc:
                    failures.append((shape, idx, f'raised {type(exc).__name__}: {exc}'))
                    continue
                if got.shape != want.shape:
                    failures.append((shape, idx, f'shape {got.shape} != {want.shape}'))
                elif not np.array_equal(got, want):
                    failures.append((shape, idx, 'values differ from np.asarray(proxy)[idx]'))
    print(f'checked {n_checked} indices ({n_skipped} skipped: fileslice.predict_shape wrong)')
    if failures:
        print(f'FAIL: {len(failures)} indices where proxy[idx] != np.asarray(proxy)[idx]')
        for shape, idx, why in failures[:15]:
            print(f'  shape={shape} idx={show(idx)}: {why}')
        return 1
    print('OK: proxy[idx] == np.asarray(proxy)[idx] for every index checked')
    return 0


if __name__ == '__main__':
    sys.exit(main())
