"""C17 repro: ``GiftiImage.remove_gifti_data_array_by_intent``.

Sweeps every sequence of up to 6 data arrays over three intents and removes
each intent in turn (given as label and as integer code).  Expected: all and
only the arrays with that intent are removed, the others are kept (the same
objects) in their original order, and ``numDA`` agrees.

Exit status 1 (first failing inputs printed) on any disagreement, else 0.
"""

import itertools
import sys

import numpy as np

from nibabel.gifti import GiftiDataArray, GiftiImage
from nibabel.nifti1 import intent_codes

INTENTS = ('NIFTI_INTENT_POINTSET', 'NIFTI_INTENT_TRIANGLE', 'NIFTI_INTENT_SHAPE')


def main():
    failures = []
    n_checked = 0
    for n in range(0, 7):
        for seq in itertools.product(INTENTS, repeat=n):
            for intent in INTENTS:
                for spec in (intent, intent_codes.code[intent]):
                    img = GiftiImage()
                    arrays = []
                    for i, name in enumerate(seq):
                        darr = GiftiDataArray(
                            np.full((2, 3), i, dtype=np.float32), intent=name, datatype='float32'
                        )
                        arrays.append(darr)
                        img.add_gifti_data_array(darr)
                    img.remove_gifti_data_array_by_intent(spec)
                    want = [d for d, name in zip(arrays, seq) if name != intent]
                    got = list(img.darrays)
                    n_checked += 1
                    ok = (
                        len(got) == len(want)
                        and all(g is w for g, w in zip(got, want))
                        and img.numDA == len(want)
                    )
                    if not ok:
                        short = [name.replace('NIFTI_INTENT_', '') for name in seq]
                        failures.append(
                            f'intents={short} remove={spec!r}: kept positions '
                            f'{[int(d.data[0, 0]) for d in got]}, expected '
                            f'{[int(d.data[0, 0]) for d in want]}'
                        )
    print(f'checked {n_checked} removals')
    if failures:
        print(f'FAIL: {len(failures)} removals left the wrong arrays')
        for line in failures[:10]:
            print('  ' + line)
        return 1
    print('OK: all and only the arrays with the given intent are removed, order preserved')
    return 0


if __name__ == '__main__':
    sys.exit(main())
