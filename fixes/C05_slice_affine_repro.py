"""C05 repro: ``img.slicer[idx]`` must keep every voxel at its world position.

Run as ``PYTHONPATH=<tree> python C05_slice_affine_repro.py``.
For every spatial slice with a non-empty result, every voxel of the sliced
image must have the same value and the same world coordinate as the voxel it
came from.  Empty results must raise IndexError.  Exits 1 (printing failing
inputs) on any mismatch, 0 otherwise.
"""
import itertools
import random
import sys

import numpy as np

import nibabel as nib

STEPS = (-3, -2, -1, 1, 2, 3, None)
# Oblique, sheared, integer-valued affine (exact in floating point)
AFFINE = np.array(
    [[2, -1, 0, -11], [1, 3, 1, 7], [0, -2, 4, 5], [0, 0, 0, 1]],
    dtype=float,
)

failures = []


def fail(msg):
    failures.append(msg)
    if len(failures) <= 10:
        print('FAIL:', msg)


def make_img(shape):
    data = np.arange(int(np.prod(shape)), dtype=np.int16).reshape(shape)
    return nib.Nifti1Image(data, AFFINE), data


def check(img, data, idx):
    expected = data[idx]
    desc = f'shape={data.shape} idx={idx}'
    try:
        new = img.slicer[idx]
    except IndexError as e:
        if expected.size != 0:
            fail(f'{desc}: IndexError({e}) for a non-empty slice')
        return
    except Exception as e:  # noqa
        fail(f'{desc}: raised {type(e).__name__}: {e}')
        return
    if expected.size == 0:
        fail(f'{desc}: empty slice did not raise IndexError')
        return
    new_data = np.asanyarray(new.dataobj)
    if new_data.shape != expected.shape or not np.array_equal(new_data, expected):
        fail(f'{desc}: data differ from NumPy slicing')
        return
    # Source voxel of every output voxel, located through the unique values
    src = np.array(np.unravel_index(new_data.ravel(), data.shape))[:3]
    dst = np.array(np.unravel_index(np.arange(new_data.size), new_data.shape))[:3]
    ones = np.ones((1, src.shape[1]))
    world_old = img.affine @ np.vstack([src, ones])
    world_new = new.affine @ np.vstack([dst, ones])
    if not np.array_equal(world_old, world_new):
        bad = np.flatnonzero((world_old != world_new).any(axis=0))[0]
        fail(
            f'{desc}: voxel {tuple(int(x) for x in dst[:, bad])} (from '
            f'{tuple(int(x) for x in src[:, bad])}) is at world {world_new[:3, bad].tolist()} '
            f'but was at {world_old[:3, bad].tolist()}'
        )


def axis_slices(n):
    bounds = list(range(-n - 2, n + 3)) + [None]
    return [slice(a, b, c) for a, b, c in itertools.product(bounds, bounds, STEPS)]


def main():
    for shape in ((3, 4, 5), (2, 3, 4, 2)):
        img, data = make_img(shape)
        # documented examples
        for idx in (
            (slice(None, None, -1),),
            (slice(-1, None),),
            (slice(None), slice(-2, None)),
            (slice(None), slice(None, None, -2)),
            (Ellipsis, slice(-7, None)),
        ):
            check(img, data, idx)
        # one axis exhaustively, the others full or fixed non-trivial slices
        others = (slice(None), slice(-2, None, -1))
        for axis in range(3):
            for sl in axis_slices(shape[axis]):
                for other in others:
                    idx = [other] * 3
                    idx[axis] = sl
                    check(img, data, tuple(idx))
        # random triples (plus a trailing index on the 4th axis if present)
        rng = random.Random(505)
        per_axis = [axis_slices(n) for n in shape[:3]]
        for _ in range(4000):
            idx = tuple(rng.choice(s) for s in per_axis)
            if len(shape) > 3:
                idx += (rng.choice((slice(None), 1, slice(None, None, -1), slice(-1, None))),)
            check(img, data, idx)
    if failures:
        print(f'{len(failures)} failing checks (first 10 shown)')
        sys.exit(1)
    print('C05 repro: all sliced images keep voxel values and world positions')
    sys.exit(0)


if __name__ == '__main__':
    main()
