#!/venv/bin/python
"""usage: add_meta.py PID <<< '{"text": "...", "note": "..."}'  — add/replace a check entry in manifest_meta.json and regenerate MANIFEST.json"""
import json, os, subprocess, sys
V = os.path.dirname(os.path.dirname(os.path.abspath(__file__)))
p = os.path.join(V, 'tools', 'manifest_meta.json')
m = json.load(open(p))
m['checks'][sys.argv[1]] = json.load(sys.stdin)
json.dump(m, open(p, 'w'), indent=1)
subprocess.run([os.path.join(V, 'tools', 'gen_manifest.py')])
