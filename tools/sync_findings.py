#!/venv/bin/python
"""Merge the PENDING_FINDINGS lists of the property modules into known_findings.json (status open).
Run by hand when a harness module's list changes; never run by the checks."""
import importlib, json, os, sys
V = os.path.dirname(os.path.dirname(os.path.abspath(__file__)))
sys.path.insert(0, os.path.join(V, 'harness'))
import common  # noqa
kfp = os.path.join(V, 'known_findings.json')
kf = json.load(open(kfp))
fixed = [e for e in kf['findings'] if e['status'] == 'fixed']
opens = []
for fn in sorted(os.listdir(os.path.join(V, 'harness', 'props'))):
    if not fn.startswith('c') or not fn.endswith('.py'):
        continue
    mod = importlib.import_module('props.' + fn[:-3])
    for e in getattr(mod, 'PENDING_FINDINGS', []):
        e = dict(e)
        e.setdefault('property', mod.PID)
        e['status'] = 'open'
        e['line'] = f"KNOWN-FINDING: property={e['property']} {e['what']}"
        opens.append(e)
kf['findings'] = fixed + opens
json.dump(kf, open(kfp, 'w'), indent=1, default=str)
print('fixed', len(fixed), 'open', len(opens))
for e in opens:
    print(' ', e['property'], e['signature'])
