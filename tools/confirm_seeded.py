#!/venv/bin/python
"""Confirm a candidate seeded change and file it under /verif/seeded/<id>/.

usage: confirm_seeded.py <candidate_dir> <id> <property>
candidate_dir holds patch.diff, demo.py (exit 0 = property holds on the tree in PYTHONPATH, non-zero =
violated) and notes.md.  Confirms, in scratch worktrees outside /repo and /verif (removed afterwards):
  1. patch applies to /repo HEAD and python compiles the touched files,
  2. demo passes on the clean tree and fails on the patched tree,
  3. the pinned test suite (stable_pass) still passes on the patched tree.
Only then is seeded/<id>/{patch.diff,demo.py,notes.md,meta.json} written.
"""
import json, os, shutil, subprocess, sys, tempfile

V = os.path.dirname(os.path.dirname(os.path.abspath(__file__)))


def sh(cmd, **kw):
    return subprocess.run(cmd, stdout=subprocess.PIPE, stderr=subprocess.STDOUT, text=True, **kw)


def main():
    cand, sid, pid = sys.argv[1:4]
    patch = os.path.join(cand, 'patch.diff')
    demo = os.path.join(cand, 'demo.py')
    wt = tempfile.mkdtemp(prefix='confirm_', dir='/tmp')
    os.rmdir(wt)
    rec = {'property': pid, 'id': sid}
    try:
        assert sh(['git', '-C', '/repo', 'worktree', 'add', '--detach', wt, 'HEAD']).returncode == 0
        env = dict(os.environ, PYTHONPATH=wt, PYTHONDONTWRITEBYTECODE='1')
        env.pop('NIBABEL_VERIF', None)
        r0 = sh(['/venv/bin/python', demo], cwd=wt, env=env, timeout=1800)
        rec['demo_clean_rc'] = r0.returncode
        r = sh(['git', '-C', wt, 'apply', patch])
        assert r.returncode == 0, 'patch does not apply: ' + r.stdout
        files = sh(['git', '-C', wt, 'diff', '--name-only']).stdout.split()
        rec['files'] = files
        for f in files:
            if f.endswith('.py'):
                c = sh(['/venv/bin/python', '-m', 'py_compile', os.path.join(wt, f)])
                assert c.returncode == 0, 'does not compile: ' + c.stdout
        r1 = sh(['/venv/bin/python', demo], cwd=wt, env=env, timeout=1800)
        rec['demo_patched_rc'] = r1.returncode
        rec['demo_patched_tail'] = r1.stdout.strip().splitlines()[-3:]
        s = sh([os.path.join(V, 'tools', 'suite_check.py'), wt], timeout=3600)
        rec['suite'] = s.stdout.strip().splitlines()[-3:]
        rec['suite_rc'] = s.returncode
        ok = r0.returncode == 0 and r1.returncode != 0 and s.returncode == 0
        rec['confirmed'] = ok
        print(json.dumps(rec, indent=1))
        if ok:
            d = os.path.join(V, 'seeded', sid)
            os.makedirs(d, exist_ok=True)
            shutil.copy(patch, os.path.join(d, 'patch.diff'))
            shutil.copy(demo, os.path.join(d, 'demo.py'))
            notes = os.path.join(cand, 'notes.md')
            needs = open(notes).read() if os.path.exists(notes) else ''
            if needs:
                shutil.copy(notes, os.path.join(d, 'notes.md'))
            meta = {'property': pid, 'breaks': pid, 'needs_to_manifest': needs[:1500],
                    'what_i_ran': ['demo.py on clean worktree of /repo HEAD: exit %d' % r0.returncode,
                                   'demo.py on patched worktree: exit %d' % r1.returncode,
                                   'tools/suite_check.py on patched worktree: ' + ' | '.join(rec['suite'][-2:])],
                    'files_touched': files}
            json.dump(meta, open(os.path.join(d, 'meta.json'), 'w'), indent=1)
        sys.exit(0 if ok else 1)
    finally:
        sh(['git', '-C', '/repo', 'worktree', 'remove', '--force', wt])
        shutil.rmtree(wt, ignore_errors=True)


if __name__ == '__main__':
    main()
