#!/venv/bin/python
"""Regenerate /verif/MANIFEST.json from tools/manifest_meta.json (levels, notes) and the property list."""
import json, os
V = os.path.dirname(os.path.dirname(os.path.abspath(__file__)))
meta = json.load(open(os.path.join(V, 'tools', 'manifest_meta.json')))
props = [json.loads(l) for l in open(os.path.join(V, 'properties.jsonl'))]
checks, na = [], []
for p in props:
    pid = p['id']
    m = meta['checks'].get(pid)
    if not m or not os.path.exists(os.path.join(V, 'harness', 'props', pid.lower() + '.py')):
        na.append({'property_id': pid, 'reason': meta['not_applicable'].get(pid, 'check not built yet in this session (planned, see DESIGN.md §5); not claimed')})
        continue
    checks.append({
        'property_id': pid,
        'quick_cmd': f'./check {pid} --tier quick',
        'thorough_cmd': f'./check {pid} --tier thorough',
        'evidence_file': f'evidence/{pid}.json',
        'replay_cmd_template': f'./check {pid} --replay {{path}}',
        'engine': 'lean4-proof+correspondence',
        'level_claimed': {'category': 'proof', 'text': m['text'], 'design_ref': f'DESIGN.md §5 {pid}'},
        'level_note': m['note'],
        'technique': m.get('technique', 'Lean 4 machine-checked theorems about a hand-written executable model + differential correspondence of model vs real code + property oracle'),
    })
man = {
    'version': 1,
    'setup_cmd': 'cd lean && lake build ' + ' '.join('NibabelModel.Props.' + c['property_id'] for c in checks) + ' ' + ' '.join('nbd_' + c['property_id'].lower() for c in checks),
    'hooks': {'guard': 'NIBABEL_VERIF', 'enable': 'no source hooks: the harness instruments through public APIs (file_map / fileobj arguments, module-global rebinding) with NIBABEL_VERIF=1 set by ./check',
              'baseline_off_cmd': 'cd /repo && /venv/bin/python -m pytest -q -p no:cacheprovider --timeout=900 --continue-on-collection-errors',
              'source_commits': [], 'add_only': True},
    'engines': [{'name': 'lean4-proof+correspondence', 'path': 'lean/ + harness/', 'serves_properties': [c['property_id'] for c in checks],
                 'kind_free_text': 'Lean 4.33 theorems (lake build + #print axioms audit) over executable models; native line-protocol drivers nbd_cXX; Python harness runs real nibabel from /repo working tree, diffs against the model and runs the property oracle'}],
    'checks': checks,
    'notes': meta.get('notes', ''),
    'not_applicable': na,
}
json.dump(man, open(os.path.join(V, 'MANIFEST.json'), 'w'), indent=1)
print('checks', len(checks), 'not claimed', len(na))
