#!/bin/sh
# Re-run the registered checks against every seeded change (seeded/<id>/), property by property:
# the seeds of ONE property run one after the other (a run with NIBABEL_REPO rewrites Generated/Cxx*.lean
# from the patched tree), different properties run in parallel.   usage: tools/rerun_all_seeded.sh [JOBS=4] [PIDS...]
cd "$(dirname "$0")/.." || exit 2
JOBS=${1:-4}; shift 2>/dev/null
PIDS=${*:-C01 C02 C03 C04 C05 C06 C07 C08 C09 C10 C11 C12 C13 C14 C15 C16 C17 C18 C19 C20}
mkdir -p /tmp/seeds
for p in $PIDS; do echo $p; done | xargs -P "$JOBS" -I{} sh -c '
  ids=$(ls -d seeded/{}_* 2>/dev/null | xargs -n1 basename | tr "\n" " ")
  [ -n "$ids" ] && /venv/bin/python tools/run_seeded.py $ids > /tmp/seeds/rerun_all_{}.log 2>&1
  ./check {} --tier quick > /tmp/seeds/rerun_clean_{}.log 2>&1   # leave Generated/ as of /repo
'
/venv/bin/python tools/run_seeded.py --aggregate > /tmp/seeds/aggregate.log 2>&1
tools/seeded_table.py --write
