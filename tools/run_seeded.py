#!/venv/bin/python
"""Run the registered checks against every seeded change under /verif/seeded/<id>/.

For each seeded/<id>/ (patch.diff + meta.json {"property": "Cxx", ...}):
  * make a scratch worktree of /repo HEAD outside /repo and /verif, apply the patch there,
  * run `NIBABEL_REPO=<worktree> ./check <property> --tier quick` (then thorough if quick missed it),
  * remove the worktree, record the outcome in seeded/RESULTS.json.
`--in-repo` applies the patch to /repo itself instead (git -C /repo apply; undone straight afterwards
with git -C /repo checkout -- .) — the way the checks are used for real; do not use it while other
work is reading /repo.
"""
import json, os, shutil, subprocess, sys, tempfile, time

V = os.path.dirname(os.path.dirname(os.path.abspath(__file__)))
SEEDED = os.path.join(V, 'seeded')


def sh(cmd, **kw):
    return subprocess.run(cmd, stdout=subprocess.PIPE, stderr=subprocess.STDOUT, text=True, **kw)


def run_check(pid, tier, env):
    t = time.time()
    r = sh(['./check', pid, '--tier', tier], cwd=V, env=env, timeout=3600)
    viol = [l for l in r.stdout.splitlines() if l.startswith('VIOLATION')]
    return {'tier': tier, 'rc': r.returncode, 'violations': viol[:5], 'wall_s': round(time.time() - t, 1),
            'tail': r.stdout.strip().splitlines()[-1:] }


def main():
    in_repo = '--in-repo' in sys.argv
    only = [a for a in sys.argv[1:] if not a.startswith('--')]
    results = {}
    rp = os.path.join(SEEDED, 'RESULTS.json')
    if '--aggregate' in sys.argv:
        for sid in sorted(os.listdir(SEEDED)):
            f = os.path.join(SEEDED, sid, 'result.json')
            if os.path.exists(f):
                results[sid] = json.load(open(f))
        json.dump(results, open(rp, 'w'), indent=1)
        for sid, r in results.items():
            print(sid, r['property'], 'caught by own check (%s)' % r.get('by') if r.get('caught') else
                  ('missed by own check; caught by ' + ','.join(r['caught_by_other_checks']) if r.get('caught_by_other_checks') else 'MISSED'))
        return
    for sid in sorted(os.listdir(SEEDED)):
        d = os.path.join(SEEDED, sid)
        if not os.path.isdir(d) or (only and sid not in only):
            continue
        meta = json.load(open(os.path.join(d, 'meta.json')))
        pid = meta['property']
        patch = os.path.join(d, 'patch.diff')
        env = dict(os.environ)
        wt = None
        try:
            if in_repo:
                assert sh(['git', '-C', '/repo', 'apply', patch]).returncode == 0, 'patch does not apply'
            else:
                wt = tempfile.mkdtemp(prefix='seeded_', dir='/tmp')
                os.rmdir(wt)
                assert sh(['git', '-C', '/repo', 'worktree', 'add', '--detach', wt, 'HEAD']).returncode == 0
                r = sh(['git', '-C', wt, 'apply', patch])
                assert r.returncode == 0, 'patch does not apply: ' + r.stdout
                env['NIBABEL_REPO'] = wt
            out = [run_check(pid, 'quick', env)]
            if out[-1]['rc'] != 1:
                out.append(run_check(pid, 'thorough', env))
            caught = any(o['rc'] == 1 and o['violations'] for o in out)
            others = {}
            if not caught:
                # the change may break a neighbouring property as well: try the checks of the properties that
                # share an anchored file with the patch (quick); SEEDED_OTHERS=all tries every check, =0 none.
                # A run whose driver did not build (model-compared 0 + no-failing-input-found) is infrastructure
                # trouble of that moment, not a catch.
                man = json.load(open(os.path.join(V, 'MANIFEST.json')))
                mode = os.environ.get('SEEDED_OTHERS', 'anchors')
                touched = set(meta.get('files_touched', []))
                props = {json.loads(l)['id']: json.loads(l) for l in open(os.path.join(V, 'properties.jsonl'))}
                for c in man['checks']:
                    q = c['property_id']
                    if q == pid or mode == '0':
                        continue
                    if mode != 'all' and not (touched & set(props[q]['anchors']['files'])):
                        continue
                    o = run_check(q, 'quick', env)
                    real = [v for v in o['violations'] if 'no-failing-input-found' not in v]
                    if o['rc'] == 1 and real:
                        others[q] = o
            results[sid] = {'property': pid, 'caught': caught, 'runs': out,
                            'by': next((o['tier'] for o in out if o['rc'] == 1), None),
                            'caught_by_other_checks': sorted(others), 'other_runs': others}
            print(sid, pid, 'CAUGHT by ' + results[sid]['by'] if caught else
                  ('MISSED by own check; caught by ' + ','.join(sorted(others)) if others else 'MISSED'),
                  out[-1]['tail'], flush=True)
        except AssertionError as e:
            results[sid] = {'property': pid, 'caught': None, 'error': str(e)}
            print(sid, 'ERROR', e, flush=True)
        finally:
            if in_repo:
                sh(['git', '-C', '/repo', 'checkout', '--', '.'])
            elif wt:
                sh(['git', '-C', '/repo', 'worktree', 'remove', '--force', wt])
                shutil.rmtree(wt, ignore_errors=True)
            if sid in results:
                json.dump(results[sid], open(os.path.join(d, 'result.json'), 'w'), indent=1)


if __name__ == '__main__':
    main()
