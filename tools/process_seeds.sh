#!/bin/sh
# confirm every new candidate under /tmp/seeds/<PID>_<k>/ and run the checks against it
cd /verif || exit 2
for d in ${SEED_DIRS:-/tmp/seeds/C??_?}; do
  [ -f "$d/patch.diff" ] || continue
  sid=$(basename "$d"); pid=${sid%_*}
  [ -d "seeded/$sid" ] && continue
  [ -f "seeded/.rejected_$sid" ] && continue
  [ -f "harness/props/$(echo $pid | tr A-Z a-z).py" ] || continue
  grep -q "\"$pid\"" tools/manifest_meta.json || continue
  echo "== confirm $sid"
  if tools/confirm_seeded.py "$d" "$sid" "$pid" > "/tmp/seeds/confirm_$sid.log" 2>&1; then
    tools/run_seeded.py "$sid" 2>&1 | grep -v WARNING
  else
    echo "   NOT CONFIRMED (see /tmp/seeds/confirm_$sid.log)"; mkdir -p seeded; touch "seeded/.rejected_$sid"
  fi
done
