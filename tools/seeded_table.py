#!/venv/bin/python
"""Print the markdown table of DESIGN.md §9.3 from seeded/*/{meta,result}.json."""
import json, os, re
V = os.path.dirname(os.path.dirname(os.path.abspath(__file__)))
rows = []
for sid in sorted(os.listdir(os.path.join(V, 'seeded'))):
    d = os.path.join(V, 'seeded', sid)
    if not os.path.isdir(d):
        continue
    meta = json.load(open(os.path.join(d, 'meta.json')))
    rp = os.path.join(d, 'result.json')
    res = json.load(open(rp)) if os.path.exists(rp) else {}
    notes = meta.get('needs_to_manifest', '')
    title = ''
    for l in notes.splitlines():
        l = l.strip().lstrip('#').strip()
        if l:
            title = re.sub(r'^C\d\d_\d\s*[-—–:]*\s*', '', l)
            break
    title = title.replace('|', '/')[:150]
    if res.get('caught'):
        out = 'own check, ' + str(res.get('by'))
    elif res.get('caught_by_other_checks'):
        out = 'MISSED by own check; caught by ' + ','.join(res['caught_by_other_checks'])
    elif res:
        out = '**MISSED**'
    else:
        out = 'not run'
    rows.append(f'| {sid} | {title} | {", ".join(meta.get("files_touched", []))[:60]} | {out} |')
table = '| id | change | file | detected by |\n|---|---|---|---|\n' + '\n'.join(rows)
import sys
if '--write' in sys.argv:
    dp = os.path.join(V, 'DESIGN.md')
    s = open(dp).read()
    a, b = s.index('<!-- SEEDED_TABLE_BEGIN -->'), s.index('<!-- SEEDED_TABLE_END -->')
    s = s[:a] + '<!-- SEEDED_TABLE_BEGIN -->\n' + table + '\n' + s[b:]
    open(dp, 'w').write(s)
    n = sum(1 for r in rows if '| own check' in r)
    print(f'{len(rows)} rows written; own check caught {n}')
else:
    print(table)
