#!/venv/bin/python
"""Print the markdown table of DESIGN.md §9.3 from seeded/*/{meta,result}.json."""
import json, os, re
V = os.path.dirname(os.path.dirname(os.path.abspath(__file__)))
rows = []
for sid in sorted(os.listdir(os.path.join(V, 'seeded'))):
    d = os.path.join(V, 'seeded', sid)
    if not os.path.isdir(d):
        continue
    meta = json.load(open(os.path.join(d, 'meta.json')))
    rp = os.path.join(d, 'result.json')
    res = json.load(open(rp)) if os.path.exists(rp) else {}
    notes = meta.get('needs_to_manifest', '')
    title = ''
    for l in notes.splitlines():
        l = l.strip().lstrip('#').strip()
        if l:
            title = re.sub(r'^C\d\d_\d\s*[-—–:]*\s*', '', l)
            break
    title = title.replace('|', '/')[:150]
    if res.get('caught'):
        out = 'own check, ' + str(res.get('by'))
    elif res.get('caught_by_other_checks'):
        out = 'MISSED by own check; caught by ' + ','.join(res['caught_by_other_checks'])
    elif res:
        out = '**MISSED**'
    else:
        out = 'not run'
    rows.append(f'| {sid} | {title} | {", ".join(meta.get("files_touched", []))[:60]} | {out} |')
print('| id | change | file | detected by |')
print('|---|---|---|---|')
print('\n'.join(rows))
