#!/venv/bin/python
"""Record the normalised-AST hashes of the nibabel sources the models were written against.
Run by hand on the CLEAN tree (/repo HEAD, no uncommitted edits) after a model has been brought up to date
with a source change (e.g. after a `fix:` commit); never run by a check."""
import json, os, subprocess, sys
sys.path.insert(0, os.path.join(os.path.dirname(os.path.dirname(os.path.abspath(__file__))), 'harness'))
import common
assert subprocess.run(['git', '-C', '/repo', 'status', '--porcelain', '--untracked-files=no'],
                      capture_output=True, text=True).stdout.strip() == '', '/repo has uncommitted edits'
files = {f: common.source_hash(os.path.join('/repo', f)) for f in common.pinned_source_files('/repo')}
head = subprocess.run(['git', '-C', '/repo', 'rev-parse', 'HEAD'], capture_output=True, text=True).stdout.strip()
json.dump({'repo_head': head, 'files': files}, open(os.path.join(common.VERIF, 'harness', 'pins.json'), 'w'),
          indent=1, sort_keys=True)
print(len(files), 'files pinned at', head)
