#!/venv/bin/python
"""Run nibabel's pinned test suite in a given tree and compare with BASELINE.json's stable_pass.

usage: suite_check.py [TREE=/repo] [-n JOBS]
exit 0 iff every test in stable_pass passed.  Prints the stable tests that did not pass.
"""
import json, os, subprocess, sys, tempfile
import xml.etree.ElementTree as ET

tree = '/repo'
jobs = '8'
args = sys.argv[1:]
while args:
    a = args.pop(0)
    if a == '-n':
        jobs = args.pop(0)
    else:
        tree = a
base = json.load(open('/root/.vp/BASELINE.json'))
stable = set(base['stable_pass'])
out = tempfile.mktemp(suffix='.junit.xml', prefix='suite_', dir='/tmp')
cmd = ['/venv/bin/python', '-m', 'pytest', '-ra', '-q', '-p', 'no:cacheprovider', '--timeout=900',
       '--continue-on-collection-errors', f'--junitxml={out}']
if jobs != '0':
    cmd += ['-n', jobs]
env = dict(os.environ)
env.pop('NIBABEL_VERIF', None)
r = subprocess.run(cmd, cwd=tree, env=env, stdout=subprocess.PIPE, stderr=subprocess.STDOUT, text=True)
passed = set()
for tc in ET.parse(out).getroot().iter('testcase'):
    bad = any(ch.tag in ('failure', 'error', 'skipped') for ch in tc)
    if not bad:
        passed.add(f"{tc.get('classname')}::{tc.get('name')}".replace(os.path.realpath(tree), '/repo').replace(tree, '/repo'))
os.unlink(out)
missing = sorted(stable - passed)
print(r.stdout.strip().splitlines()[-1])
print(f'stable_pass={len(stable)} passed_now={len(passed)} stable_not_passing={len(missing)}')
for m in missing[:50]:
    print('  NOT PASSING:', m)
sys.exit(0 if not missing else 1)
