#!/venv/bin/python
"""Fill the per-property as-built table of DESIGN.md §9.6 (between the PROPS_TABLE markers) from the evidence files
written by the last clean quick runs and from the harness modules.   usage: tools/props_table.py [--write]"""
import importlib, json, os, sys
V = os.path.dirname(os.path.dirname(os.path.abspath(__file__)))
sys.path.insert(0, os.path.join(V, 'harness'))
kf = json.load(open(os.path.join(V, 'known_findings.json')))['findings']
rows = ['| prop | theorems named in THEOREMS | obligations audited (discharged) | regenerated files / obligations | quick: cases (model-compared) | wall s | open findings | fixed findings |',
        '|---|---|---|---|---|---|---|---|']
for i in range(1, 21):
    pid = 'C%02d' % i
    mod = importlib.import_module('props.c%02d' % i)
    ev = json.load(open(os.path.join(V, 'evidence', pid + '.json')))
    cov = ev['coverage']
    gens = sorted(f[:-5] for f in os.listdir(os.path.join(V, 'lean', 'NibabelModel', 'Generated')) if f.startswith(pid) and f.endswith('.lean'))
    op = sum(1 for e in kf if e['property'] == pid and e['status'] == 'open')
    fx = sum(1 for e in kf if e['property'] == pid and e['status'] == 'fixed')
    rows.append(f"| {pid} | {len(mod.THEOREMS)} | {cov['obligations']} ({cov['discharged']}) | {', '.join(gens)} / {len(cov.get('generated_obligations', []))} | "
                f"{cov['evaluations']} ({cov['traces_validated_against_impl']}) | {ev['wall_s']:.0f} ({ev['tier']}, seed {ev['seed']}) | {op} | {fx} |")
text = '\n'.join(rows)
if '--write' in sys.argv:
    p = os.path.join(V, 'DESIGN.md')
    s = open(p).read()
    a = s.index('<!-- PROPS_TABLE_BEGIN -->') + len('<!-- PROPS_TABLE_BEGIN -->')
    b = s.index('<!-- PROPS_TABLE_END -->')
    open(p, 'w').write(s[:a] + '\n' + text + '\n' + s[b:])
    print('DESIGN.md table written')
else:
    print(text)
