#!/bin/sh
# Clean quick sweep of every property for several seeds on the unchanged tree (no NIBABEL_REPO), PAR properties at a time;
# the seeds of one property run one after the other (they share Generated/ and evidence/).  Last seed run = committed evidence.
# usage: tools/final_sweep.sh [PAR=5] [SEEDS="3 2 0 1"]
cd "$(dirname "$0")/.." || exit 2
PAR=${1:-5}; SEEDS=${2:-"3 2 0 1"}
mkdir -p /tmp/sweep
for p in ${PIDS:-C01 C02 C03 C04 C05 C06 C07 C08 C09 C10 C11 C12 C13 C14 C15 C16 C17 C18 C19 C20}; do echo $p; done | \
xargs -P "$PAR" -I{} sh -c '
  for s in '"$SEEDS"'; do
    VERIF_SEED=$s ./check {} --tier quick > /tmp/sweep/{}_$s.log 2>&1; echo "{} seed=$s rc=$? $(grep -c "^VIOLATION" /tmp/sweep/{}_$s.log) violations: $(tail -n 1 /tmp/sweep/{}_$s.log | cut -c1-200)"
  done'
